// C26: tracker handouts never include the announcer and respect priority and limits.
//
// History monitor. A "world" is a real trackerserver (real handler over a real
// HTTP listener, v1 and v2 announce endpoints, reached through kraken's own
// announceclient), a real peer store (LocalStore, or RedisStore on an
// in-process miniredis), one of the two real handout policies and a scripted
// origin store (the only fake: it answers GetOrigins with fresh PeerInfo
// copies, like the real one does). A PRNG history of announces from 2-12 peers
// with flipping completion flags over 1-2 torrents is sent and EVERY response
// is judged:
//
//   - the announcer's own peer id is not listed; no peer id is listed twice;
//   - at most PeerHandoutLimit agents, and every origin entry is one of the
//     blob's origins;
//   - a complete announcer gets an empty handout;
//   - under the completeness policy: seeders, then origins, then incomplete peers
//     (the default policy documents no order; none is checked);
//   - every agent entry is a peer that announced for that torrent, with the
//     address it announced (and, on the LocalStore, its latest completion flag).
//
// Worlds have time: the peer stores run on a mock clock that advances below and
// beyond the peer TTL / the Redis window look-back between announces (peers go
// silent, lapse and come back; with and without the LocalStore cleanup passes,
// run through export_verif_c27.go), and a quarter of the worlds are large swarms
// whose handouts hold dozens of entries of every class.
package c26

import (
	"crypto/sha256"
	"encoding/hex"
	"errors"
	"fmt"
	"math/rand"
	"net"
	"net/http"
	"strings"
	"sync"
	"sync/atomic"
	"testing"
	"time"

	"github.com/alicebob/miniredis"
	"github.com/andres-erbsen/clock"
	"github.com/uber-go/tally"
	"go.uber.org/zap"

	"github.com/uber/kraken/core"
	"github.com/uber/kraken/lib/hashring"
	"github.com/uber/kraken/lib/hostlist"
	"github.com/uber/kraken/tracker/announceclient"
	"github.com/uber/kraken/tracker/peerhandoutpolicy"
	"github.com/uber/kraken/tracker/peerstore"
	"github.com/uber/kraken/tracker/trackerserver"
	"github.com/uber/kraken/utils/log"

	"verif/harness/internal/ev"
	"verif/harness/internal/gen"
)

// ---- scripted origin store (outer boundary) --------------------------------

type scriptedOrigins struct {
	origins map[core.Digest][]core.PeerInfo
	fail    map[core.Digest]bool
}

func (s *scriptedOrigins) GetOrigins(d core.Digest) ([]*core.PeerInfo, error) {
	if s.fail[d] {
		return nil, errors.New("all origins unavailable: scripted")
	}
	var out []*core.PeerInfo
	for _, o := range s.origins[d] {
		c := o // a fresh PeerInfo per call, like originstore.store.GetOrigins
		out = append(out, &c)
	}
	return out, nil
}

// ---- world ------------------------------------------------------------------

type step struct {
	Peer     int    `json:"p"`
	Torrent  int    `json:"t"`
	Complete bool   `json:"c"`
	V1       bool   `json:"v1,omitempty"`
	AdvNs    int64  `json:"adv_ns,omitempty"`  // clock advance before this announce
	Cleanup  string `json:"cleanup,omitempty"` // LocalStore cleanup pass run before this announce: entries | groups
}

type world struct {
	Store      string `json:"store"`  // local | redis
	Policy     string `json:"policy"` // default | completeness
	Limit      int    `json:"limit"`
	Peers      int    `json:"peers"`
	Torrents   int    `json:"torrents"`
	Origins    []int  `json:"origins_per_torrent"`
	OriginFail []bool `json:"origin_store_fails"`
	Steps      []step `json:"steps"`
	IDSeed     int64  `json:"id_seed"`
	Large      bool   `json:"large_swarm,omitempty"`
	TTLSec     int    `json:"local_ttl_sec,omitempty"`
	WindowSec  int    `json:"redis_window_sec,omitempty"`
	MaxWindows int    `json:"redis_max_windows,omitempty"`
	Cleanups   bool   `json:"local_cleanup_passes,omitempty"`
}

func genWorld(r *rand.Rand) world {
	w := world{Store: "local", Policy: "completeness", Limit: 1 + r.Intn(10), Peers: 2 + r.Intn(11), Torrents: 1 + r.Intn(2), IDSeed: r.Int63()}
	if r.Intn(4) == 0 {
		w.Store = "redis"
	}
	if r.Intn(3) == 0 {
		w.Policy = "default"
	}
	// a quarter of the worlds are large swarms: the default handout limit is 50,
	// so single handouts hold dozens of seeders, origins and incomplete peers
	w.Large = r.Intn(4) == 0
	if w.Large {
		w.Peers = 20 + r.Intn(41)
		w.Limit = 15 + r.Intn(36)
		w.Torrents = 1
		if r.Intn(4) != 0 {
			w.Policy = "completeness"
		}
	}
	for t := 0; t < w.Torrents; t++ {
		w.Origins = append(w.Origins, r.Intn(4))
		w.OriginFail = append(w.OriginFail, r.Intn(8) == 0)
		if w.Large {
			w.Origins[t], w.OriginFail[t] = 1+r.Intn(3), false
		}
	}
	// time: the peer TTL (LocalStore) / the window look-back (RedisStore) and clock
	// advances below and beyond it between announces; in half of the LocalStore
	// worlds the cleanup passes also run now and then, in the other half never
	// (in production they run every 5 minutes / every hour)
	w.TTLSec = []int{5, 60, 3600}[r.Intn(3)]
	w.WindowSec = []int{10, 60, 3600}[r.Intn(3)]
	w.MaxWindows = []int{2, 5}[r.Intn(2)]
	w.Cleanups = r.Intn(2) == 0
	span := time.Duration(w.TTLSec) * time.Second
	if w.Store == "redis" {
		span = time.Duration(w.WindowSec*w.MaxWindows) * time.Second
	}
	timed := r.Intn(4) != 0 // a quarter of the worlds never move the clock

	// completion state per (peer, torrent): mostly monotone (download finishes),
	// sometimes flipping back (blob evicted and re-downloaded)
	state := make([][]bool, w.Peers)
	for p := range state {
		state[p] = make([]bool, w.Torrents)
		for t := range state[p] {
			state[p][t] = r.Intn(5) == 0 // some peers start as seeders
			if w.Large {
				state[p][t] = r.Intn(2) == 0
			}
		}
	}
	n := 20 + r.Intn(61)
	if w.Large {
		n = 2*w.Peers + r.Intn(60)
	}
	for i := 0; i < n; i++ {
		p, t := r.Intn(w.Peers), r.Intn(w.Torrents)
		switch x := r.Intn(20); {
		case x < 3:
			state[p][t] = true
		case x < 6 && w.Store == "local":
			// only on the LocalStore: the Redis store documents that it ORs completion bits across windows
			state[p][t] = false
		}
		st := step{Peer: p, Torrent: t, Complete: state[p][t], V1: r.Intn(4) == 0}
		if timed && r.Intn(7) == 0 {
			switch r.Intn(6) {
			case 0:
				st.AdvNs = int64(span / 3)
			case 1:
				st.AdvNs = int64(span) - 1 // limit - 1 tick
			case 2, 3:
				st.AdvNs = int64(span) + 1 // limit + 1 tick: everything announced before has lapsed
			case 4:
				st.AdvNs = 2 * int64(span)
			default:
				st.AdvNs = 1 + r.Int63n(2*int64(span))
			}
		}
		if w.Store == "local" && w.Cleanups && r.Intn(12) == 0 {
			st.Cleanup = []string{"entries", "groups"}[r.Intn(2)]
		}
		w.Steps = append(w.Steps, st)
	}
	return w
}

// fastClock is kraken's mock clock with Now/Set served from an atomic
// (clock.Mock.Set sleeps 1 ms per call; the peer stores only ever call Now).
type fastClock struct {
	*clock.Mock
	ns atomic.Int64
}

func newFastClock(t time.Time) *fastClock {
	c := &fastClock{Mock: clock.NewMock()}
	c.ns.Store(t.UnixNano())
	return c
}

func (c *fastClock) Now() time.Time  { return time.Unix(0, c.ns.Load()).UTC() }
func (c *fastClock) Set(t time.Time) { c.ns.Store(t.UnixNano()) }

type latest struct {
	ip        string
	port      int
	complete  bool
	expiresAt time.Time // LocalStore worlds: announce time + TTL
}

// redisEnv is a per-worker miniredis with a pinned clock.
type redisEnv struct {
	mr     *miniredis.Miniredis
	clk    *fastClock
	stores map[[2]int]*peerstore.RedisStore // per (window, max windows); reused: RedisStore.Close does not release its pool
}

func (e *redisEnv) store(windowSec, maxWindows int) (*peerstore.RedisStore, error) {
	k := [2]int{windowSec, maxWindows}
	if s := e.stores[k]; s != nil {
		return s, nil
	}
	s, err := peerstore.NewRedisStore(peerstore.RedisConfig{Addr: e.mr.Addr(), MaxIdleConns: 2,
		PeerSetWindowSize: time.Duration(windowSec) * time.Second, MaxPeerSetWindows: maxWindows}, e.clk)
	if err == nil {
		e.stores[k] = s
	}
	return s, err
}

func (e *redisEnv) advance(d time.Duration) {
	now := e.clk.Now().Add(d)
	e.mr.FastForward(d)
	e.clk.Set(now)
	e.mr.SetTime(now)
}

func classOf(p *core.PeerInfo) string {
	switch {
	case p.Origin:
		return "origin"
	case p.Complete:
		return "seeder"
	}
	return "incomplete"
}

func render(ps []*core.PeerInfo) []string {
	out := make([]string, 0, len(ps))
	for _, p := range ps {
		out = append(out, fmt.Sprintf("%s|%s:%d|%s", p.PeerID.String()[:8], p.IP, p.Port, classOf(p)))
	}
	return out
}

func TestC26(t *testing.T) {
	run := ev.Start(t, "C26", "exploration",
		"PRNG worlds: peer store local|redis(miniredis), policy completeness|default, handout limit 1-10, 2-12 peers, 1-2 torrents, 0-3 origins per torrent (origin store sometimes failing); "+
			"a quarter are large swarms (20-60 peers, half of them seeders, limit 15-50, 1-3 origins, mostly completeness) whose handouts hold well over 12 entries; "+
			"20-80 (large: 2x peers + 0-60) announces with completion flags flipping, v1 and v2 endpoints through the real announce client; in three quarters of the worlds the mock clock advances "+
			"between announces (TTL/3, TTL-1ns, TTL+1ns, 2xTTL, random; TTL 5s-1h on the LocalStore, window x max-windows on the RedisStore) so peers lapse and re-announce, and half of the LocalStore worlds "+
			"also run the cleanup passes now and then. One case per announce; a case is non-trivial when the announcer was incomplete "+
			"and at least one other peer had announced for the torrent or the blob had an origin (so the handout had something to list); distinct = distinct (world, step).")
	defer run.Finish()
	run.Assume("origin servers do not announce (they run with announceclient.Disabled), so origin ids and agent ids are disjoint")
	run.Assume("a peer keeps its address for the lifetime of its peer id")
	run.Assume("RedisStore: completion bits only go from incomplete to complete (documented OR across windows); latest-flag freshness is only judged on the LocalStore")
	log.SetGlobalLogger(zap.NewNop().Sugar())

	const workers = 6
	total := run.N(12000, 150000) // announces
	per := total / workers
	var wg sync.WaitGroup
	for k := 0; k < workers; k++ {
		wg.Add(1)
		go func(k int) {
			defer wg.Done()
			worker(t, run, k, per)
		}(k)
	}
	wg.Wait()
}

func worker(t *testing.T, run *ev.Run, k, announces int) {
	var renv *redisEnv
	defer func() {
		if renv != nil {
			renv.mr.Close()
		}
	}()
	done := 0
	for wi := 0; done < announces; wi++ {
		wid := fmt.Sprintf("w%d-%d", k, wi)
		r := run.Rand(wid)
		w := genWorld(r)
		done += len(w.Steps)
		if rc := run.ReplayCase(); rc != "" && !strings.HasPrefix(rc, wid+"/") {
			continue
		}
		if w.Store == "redis" && renv == nil {
			mr, err := miniredis.Run()
			if err != nil {
				t.Errorf("miniredis: %v", err)
				return
			}
			now := time.Date(2100, 1, 1, 0, 30, 0, 0, time.UTC)
			mr.SetTime(now)
			renv = &redisEnv{mr, newFastClock(now), map[[2]int]*peerstore.RedisStore{}}
		}
		if !runWorld(t, run, wid, w, renv) {
			return
		}
		if run.WantSample() && wi%7 == 0 {
			s := w
			s.Steps = s.Steps[:6]
			run.Sample(s)
		}
	}
}

func runWorld(t *testing.T, run *ev.Run, wid string, w world, renv *redisEnv) bool {
	idr := rand.New(rand.NewSource(w.IDSeed))

	// identities
	type peer struct {
		pctx   core.PeerContext
		client announceclient.Client
	}
	var digests []core.Digest
	var hashes []core.InfoHash
	origins := &scriptedOrigins{origins: map[core.Digest][]core.PeerInfo{}, fail: map[core.Digest]bool{}}
	originIDs := make([]map[core.PeerID]bool, w.Torrents)
	for ti := 0; ti < w.Torrents; ti++ {
		d, err := core.NewSHA256DigestFromHex(gen.Hex(idr, 64))
		if err != nil {
			t.Errorf("digest: %v", err)
			return false
		}
		h, err := core.NewInfoHashFromHex(gen.Hex(idr, 40))
		if err != nil {
			t.Errorf("infohash: %v", err)
			return false
		}
		digests = append(digests, d)
		hashes = append(hashes, h)
		originIDs[ti] = map[core.PeerID]bool{}
		for o := 0; o < w.Origins[ti]; o++ {
			var id core.PeerID
			copy(id[:], gen.Bytes(idr, 20))
			origins.origins[d] = append(origins.origins[d], core.PeerInfo{PeerID: id, IP: fmt.Sprintf("10.9.%d.%d", ti, o), Port: 15000 + o, Origin: true, Complete: true})
			originIDs[ti][id] = true
		}
		origins.fail[d] = w.OriginFail[ti]
	}

	// real components
	var store peerstore.Store
	var local *peerstore.LocalStore
	lclk := newFastClock(time.Date(2030, 1, 1, 0, 0, 0, 0, time.UTC))
	ttl := time.Duration(w.TTLSec) * time.Second
	switch w.Store {
	case "local":
		local = peerstore.NewLocalStore(peerstore.LocalConfig{TTL: ttl}, lclk)
		store = local
	case "redis":
		rs, err := renv.store(w.WindowSec, w.MaxWindows)
		if err != nil {
			t.Errorf("redis store: %v", err)
			return false
		}
		store = rs
	}
	defer store.Close()
	policy, err := peerhandoutpolicy.NewPriorityPolicy(tally.NoopScope, w.Policy)
	if err != nil {
		t.Errorf("policy: %v", err)
		return false
	}
	interval := 7 * time.Second
	server := trackerserver.New(trackerserver.Config{PeerHandoutLimit: w.Limit, AnnounceInterval: interval},
		tally.NoopScope, policy, store, origins, nil)
	// (a plain http.Server: closing an httptest.Server closes the idle connections of
	// http.DefaultTransport, which the other workers' announce clients are using)
	ln, err := net.Listen("tcp", "127.0.0.1:0")
	if err != nil {
		t.Errorf("listen: %v", err)
		return false
	}
	srv := &http.Server{Handler: server.Handler()}
	go srv.Serve(ln)
	defer srv.Close()
	ring := hashring.NoopPassiveRing(hostlist.Fixture(ln.Addr().String()))

	peers := make([]peer, w.Peers)
	byID := map[core.PeerID]int{}
	for i := range peers {
		var id core.PeerID
		copy(id[:], gen.Bytes(idr, 20))
		peers[i].pctx = core.PeerContext{IP: fmt.Sprintf("10.0.%d.%d", i/200, 1+i%200), Port: 16000 + i, PeerID: id, Zone: "z", Cluster: "c"}
		peers[i].client = announceclient.New(peers[i].pctx, ring, nil)
		byID[id] = i
	}

	model := make([]map[int]latest, w.Torrents) // torrent -> peer -> latest announce
	for i := range model {
		model[i] = map[int]latest{}
	}
	wkey := sha256.Sum256([]byte(ev.JSON(w)))
	wk := hex.EncodeToString(wkey[:8])

	for si, st := range w.Steps {
		caseID := fmt.Sprintf("%s/%d", wid, si)
		if rc := run.ReplayCase(); rc != "" && rc != caseID {
			// earlier steps still have to be sent to rebuild the store state
			if rcStep(rc) < si {
				break
			}
		}
		if st.AdvNs > 0 {
			if w.Store == "local" {
				now := lclk.Now().Add(time.Duration(st.AdvNs))
				// never sit exactly on an expiry instant (After vs >= is not part of the statement)
				for again := true; again; {
					again = false
					for _, m := range model {
						for _, l := range m {
							if l.expiresAt.Equal(now) {
								now, again = now.Add(1), true
							}
						}
					}
				}
				lclk.Set(now)
			} else {
				renv.advance(time.Duration(st.AdvNs))
			}
			run.Count("clock_advances_"+w.Store, 1)
		}
		if st.Cleanup != "" && local != nil {
			if st.Cleanup == "entries" {
				local.VerifC27CleanupExpiredPeerEntries()
			} else {
				local.VerifC27CleanupExpiredPeerGroups()
			}
			run.Count("local_cleanup_passes", 1)
		}
		if w.Store == "local" {
			if l, ok := model[st.Torrent][st.Peer]; ok && lclk.Now().After(l.expiresAt) {
				run.Count("reannounces_after_ttl_lapsed", 1)
			}
		}
		p := peers[st.Peer]
		version := announceclient.V2
		if st.V1 {
			version = announceclient.V1
		}
		others := 0
		for q := range model[st.Torrent] {
			if q != st.Peer {
				others++
			}
		}
		hasOrigins := w.Origins[st.Torrent] > 0 && !w.OriginFail[st.Torrent]
		got, gotInterval, err := p.client.Announce(digests[st.Torrent], hashes[st.Torrent], st.Complete, version)
		model[st.Torrent][st.Peer] = latest{p.pctx.IP, p.pctx.Port, st.Complete, lclk.Now().Add(ttl)}
		run.Case(wk+"/"+fmt.Sprint(si), !st.Complete && (others > 0 || hasOrigins))
		run.Count("announces_"+w.Store+"_"+w.Policy, 1)
		if st.V1 {
			run.Count("announces_v1", 1)
		}

		wit := func(extra map[string]interface{}) map[string]interface{} {
			m := map[string]interface{}{"world": w, "step": si, "announcer": p.pctx.PeerID.String()[:8], "announcer_complete": st.Complete, "handout": render(got)}
			for k, v := range extra {
				m[k] = v
			}
			return m
		}
		if err != nil {
			run.Violation("announce-error", caseID, wit(map[string]interface{}{"err": err.Error()}))
			continue
		}
		if gotInterval != interval {
			run.Violation("interval-differs-from-config", caseID, wit(map[string]interface{}{"interval": gotInterval.String()}))
		}
		if st.Complete {
			if len(got) != 0 {
				run.Violation("handout-for-complete-announcer-not-empty", caseID, wit(nil))
			}
			run.Count("empty_handouts_for_complete_announcer", 1)
			continue
		}
		run.Count("handout_entries", int64(len(got)))

		seen := map[core.PeerID]bool{}
		agents := 0
		for _, e := range got {
			if e.PeerID == p.pctx.PeerID {
				run.Violation("announcer-listed-in-own-handout", caseID, wit(nil))
			}
			if seen[e.PeerID] {
				run.Violation("peer-listed-twice", caseID, wit(nil))
			}
			seen[e.PeerID] = true
			if e.Origin {
				if !originIDs[st.Torrent][e.PeerID] {
					run.Violation("origin-entry-not-an-origin-of-the-blob", caseID, wit(nil))
				}
				run.Count("origin_entries", 1)
				continue
			}
			agents++
			q, ok := byID[e.PeerID]
			l, announced := model[st.Torrent][q]
			if !ok || !announced {
				run.Violation("agent-entry-never-announced-for-torrent", caseID, wit(nil))
				continue
			}
			if e.IP != l.ip || e.Port != l.port {
				run.Violation("agent-entry-address-differs-from-announce", caseID, wit(map[string]interface{}{"expected": fmt.Sprintf("%s:%d", l.ip, l.port)}))
			}
			if w.Store == "local" && e.Complete != l.complete {
				run.Violation("agent-entry-flag-differs-from-latest-announce", caseID, wit(map[string]interface{}{"peer": e.PeerID.String()[:8], "latest_complete": l.complete}))
			}
		}
		if agents > w.Limit {
			run.Violation("more-agents-than-handout-limit", caseID, wit(map[string]interface{}{"agents": agents}))
		}
		if agents == w.Limit && len(model[st.Torrent]) > w.Limit {
			run.Count("handouts_truncated_by_limit", 1)
		}
		if w.Policy == "completeness" {
			rank := map[string]int{"seeder": 0, "origin": 1, "incomplete": 2}
			for i := 1; i < len(got); i++ {
				a, b := classOf(got[i-1]), classOf(got[i])
				if rank[a] > rank[b] {
					run.Violation("order/completeness/"+a+"-before-"+b, caseID, wit(nil))
					break
				}
			}
			classes := map[string]bool{}
			for _, e := range got {
				classes[classOf(e)] = true
			}
			if len(classes) >= 2 {
				run.Count("ordered_handouts_with_mixed_classes", 1)
			}
			if len(got) > 12 && classes["seeder"] && classes["origin"] {
				run.Count("ordered_handouts_over_12_entries_with_seeders_and_origins", 1)
			}
		}
	}
	return true
}

func rcStep(rc string) int {
	i := strings.LastIndex(rc, "/")
	n := 0
	fmt.Sscanf(rc[i+1:], "%d", &n)
	return n
}
