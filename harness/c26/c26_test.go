// C26: tracker handouts never include the announcer and respect priority and limits.
//
// History monitor. A "world" is a real trackerserver (real handler over a real
// HTTP listener, v1 and v2 announce endpoints, reached through kraken's own
// announceclient), a real peer store (LocalStore, or RedisStore on an
// in-process miniredis), one of the two real handout policies and a scripted
// origin store (the only fake: it answers GetOrigins with fresh PeerInfo
// copies, like the real one does). A PRNG history of announces from 2-12 peers
// with flipping completion flags over 1-2 torrents is sent and EVERY response
// is judged:
//
//   - the announcer's own peer id is not listed; no peer id is listed twice;
//   - at most PeerHandoutLimit agents, and every origin entry is one of the
//     blob's origins;
//   - a complete announcer gets an empty handout;
//   - under the completeness policy: seeders, then origins, then incomplete peers
//     (the default policy documents no order; none is checked);
//   - every agent entry is a peer that announced for that torrent, with the
//     address it announced (and, on the LocalStore, its latest completion flag).
package c26

import (
	"crypto/sha256"
	"encoding/hex"
	"errors"
	"fmt"
	"math/rand"
	"net/http/httptest"
	"strings"
	"sync"
	"testing"
	"time"

	"github.com/alicebob/miniredis"
	"github.com/andres-erbsen/clock"
	"github.com/uber-go/tally"
	"go.uber.org/zap"

	"github.com/uber/kraken/core"
	"github.com/uber/kraken/lib/hashring"
	"github.com/uber/kraken/lib/hostlist"
	"github.com/uber/kraken/tracker/announceclient"
	"github.com/uber/kraken/tracker/peerhandoutpolicy"
	"github.com/uber/kraken/tracker/peerstore"
	"github.com/uber/kraken/tracker/trackerserver"
	"github.com/uber/kraken/utils/log"

	"verif/harness/internal/ev"
	"verif/harness/internal/gen"
)

// ---- scripted origin store (outer boundary) --------------------------------

type scriptedOrigins struct {
	origins map[core.Digest][]core.PeerInfo
	fail    map[core.Digest]bool
}

func (s *scriptedOrigins) GetOrigins(d core.Digest) ([]*core.PeerInfo, error) {
	if s.fail[d] {
		return nil, errors.New("all origins unavailable: scripted")
	}
	var out []*core.PeerInfo
	for _, o := range s.origins[d] {
		c := o // a fresh PeerInfo per call, like originstore.store.GetOrigins
		out = append(out, &c)
	}
	return out, nil
}

// ---- world ------------------------------------------------------------------

type step struct {
	Peer     int  `json:"p"`
	Torrent  int  `json:"t"`
	Complete bool `json:"c"`
	V1       bool `json:"v1,omitempty"`
}

type world struct {
	Store      string `json:"store"`  // local | redis
	Policy     string `json:"policy"` // default | completeness
	Limit      int    `json:"limit"`
	Peers      int    `json:"peers"`
	Torrents   int    `json:"torrents"`
	Origins    []int  `json:"origins_per_torrent"`
	OriginFail []bool `json:"origin_store_fails"`
	Steps      []step `json:"steps"`
	IDSeed     int64  `json:"id_seed"`
}

func genWorld(r *rand.Rand) world {
	w := world{Store: "local", Policy: "completeness", Limit: 1 + r.Intn(10), Peers: 2 + r.Intn(11), Torrents: 1 + r.Intn(2), IDSeed: r.Int63()}
	if r.Intn(4) == 0 {
		w.Store = "redis"
	}
	if r.Intn(3) == 0 {
		w.Policy = "default"
	}
	for t := 0; t < w.Torrents; t++ {
		w.Origins = append(w.Origins, r.Intn(4))
		w.OriginFail = append(w.OriginFail, r.Intn(8) == 0)
	}
	// completion state per (peer, torrent): mostly monotone (download finishes),
	// sometimes flipping back (blob evicted and re-downloaded)
	state := make([][]bool, w.Peers)
	for p := range state {
		state[p] = make([]bool, w.Torrents)
		for t := range state[p] {
			state[p][t] = r.Intn(5) == 0 // some peers start as seeders
		}
	}
	n := 20 + r.Intn(61)
	for i := 0; i < n; i++ {
		p, t := r.Intn(w.Peers), r.Intn(w.Torrents)
		switch x := r.Intn(20); {
		case x < 3:
			state[p][t] = true
		case x < 6 && w.Store == "local":
			// only on the LocalStore: the Redis store documents that it ORs completion bits across windows
			state[p][t] = false
		}
		w.Steps = append(w.Steps, step{Peer: p, Torrent: t, Complete: state[p][t], V1: r.Intn(4) == 0})
	}
	return w
}

type latest struct {
	ip       string
	port     int
	complete bool
}

// redisEnv is a per-worker miniredis with a pinned clock.
type redisEnv struct {
	mr    *miniredis.Miniredis
	clk   *clock.Mock
	store *peerstore.RedisStore // one per worker: RedisStore.Close does not release its pool
}

func classOf(p *core.PeerInfo) string {
	switch {
	case p.Origin:
		return "origin"
	case p.Complete:
		return "seeder"
	}
	return "incomplete"
}

func render(ps []*core.PeerInfo) []string {
	out := make([]string, 0, len(ps))
	for _, p := range ps {
		out = append(out, fmt.Sprintf("%s|%s:%d|%s", p.PeerID.String()[:8], p.IP, p.Port, classOf(p)))
	}
	return out
}

func TestC26(t *testing.T) {
	run := ev.Start(t, "C26", "exploration",
		"PRNG worlds: peer store local|redis(miniredis), policy completeness|default, handout limit 1-10, 2-12 peers, 1-2 torrents, 0-3 origins per torrent (origin store sometimes failing), "+
			"20-80 announces with completion flags flipping, v1 and v2 endpoints through the real announce client. One case per announce; a case is non-trivial when the announcer was incomplete "+
			"and at least one other peer had announced for the torrent or the blob had an origin (so the handout had something to list); distinct = distinct (world, step).")
	defer run.Finish()
	run.Assume("origin servers do not announce (they run with announceclient.Disabled), so origin ids and agent ids are disjoint")
	run.Assume("a peer keeps its address for the lifetime of its peer id")
	run.Assume("RedisStore: completion bits only go from incomplete to complete (documented OR across windows); latest-flag freshness is only judged on the LocalStore")
	log.SetGlobalLogger(zap.NewNop().Sugar())

	const workers = 6
	total := run.N(9000, 150000) // announces
	per := total / workers
	var wg sync.WaitGroup
	for k := 0; k < workers; k++ {
		wg.Add(1)
		go func(k int) {
			defer wg.Done()
			worker(t, run, k, per)
		}(k)
	}
	wg.Wait()
}

func worker(t *testing.T, run *ev.Run, k, announces int) {
	var renv *redisEnv
	defer func() {
		if renv != nil {
			renv.mr.Close()
		}
	}()
	done := 0
	for wi := 0; done < announces; wi++ {
		wid := fmt.Sprintf("w%d-%d", k, wi)
		r := run.Rand(wid)
		w := genWorld(r)
		done += len(w.Steps)
		if rc := run.ReplayCase(); rc != "" && !strings.HasPrefix(rc, wid+"/") {
			continue
		}
		if w.Store == "redis" && renv == nil {
			mr, err := miniredis.Run()
			if err != nil {
				t.Errorf("miniredis: %v", err)
				return
			}
			clk := clock.NewMock()
			now := time.Date(2100, 1, 1, 0, 30, 0, 0, time.UTC)
			clk.Set(now)
			mr.SetTime(now)
			rs, err := peerstore.NewRedisStore(peerstore.RedisConfig{Addr: mr.Addr(), MaxIdleConns: 2}, clk)
			if err != nil {
				t.Errorf("redis store: %v", err)
				return
			}
			renv = &redisEnv{mr, clk, rs}
		}
		if !runWorld(t, run, wid, w, renv) {
			return
		}
		if run.WantSample() && wi%7 == 0 {
			s := w
			s.Steps = s.Steps[:6]
			run.Sample(s)
		}
	}
}

func runWorld(t *testing.T, run *ev.Run, wid string, w world, renv *redisEnv) bool {
	idr := rand.New(rand.NewSource(w.IDSeed))

	// identities
	type peer struct {
		pctx   core.PeerContext
		client announceclient.Client
	}
	var digests []core.Digest
	var hashes []core.InfoHash
	origins := &scriptedOrigins{origins: map[core.Digest][]core.PeerInfo{}, fail: map[core.Digest]bool{}}
	originIDs := make([]map[core.PeerID]bool, w.Torrents)
	for ti := 0; ti < w.Torrents; ti++ {
		d, err := core.NewSHA256DigestFromHex(gen.Hex(idr, 64))
		if err != nil {
			t.Errorf("digest: %v", err)
			return false
		}
		h, err := core.NewInfoHashFromHex(gen.Hex(idr, 40))
		if err != nil {
			t.Errorf("infohash: %v", err)
			return false
		}
		digests = append(digests, d)
		hashes = append(hashes, h)
		originIDs[ti] = map[core.PeerID]bool{}
		for o := 0; o < w.Origins[ti]; o++ {
			var id core.PeerID
			copy(id[:], gen.Bytes(idr, 20))
			origins.origins[d] = append(origins.origins[d], core.PeerInfo{PeerID: id, IP: fmt.Sprintf("10.9.%d.%d", ti, o), Port: 15000 + o, Origin: true, Complete: true})
			originIDs[ti][id] = true
		}
		origins.fail[d] = w.OriginFail[ti]
	}

	// real components
	var store peerstore.Store
	switch w.Store {
	case "local":
		store = peerstore.NewLocalStore(peerstore.LocalConfig{}, clock.NewMock())
	case "redis":
		store = renv.store
	}
	defer store.Close()
	policy, err := peerhandoutpolicy.NewPriorityPolicy(tally.NoopScope, w.Policy)
	if err != nil {
		t.Errorf("policy: %v", err)
		return false
	}
	interval := 7 * time.Second
	server := trackerserver.New(trackerserver.Config{PeerHandoutLimit: w.Limit, AnnounceInterval: interval},
		tally.NoopScope, policy, store, origins, nil)
	ts := httptest.NewServer(server.Handler())
	defer ts.Close()
	addr := strings.TrimPrefix(ts.URL, "http://")
	ring := hashring.NoopPassiveRing(hostlist.Fixture(addr))

	peers := make([]peer, w.Peers)
	byID := map[core.PeerID]int{}
	for i := range peers {
		var id core.PeerID
		copy(id[:], gen.Bytes(idr, 20))
		peers[i].pctx = core.PeerContext{IP: fmt.Sprintf("10.0.%d.%d", i/200, 1+i%200), Port: 16000 + i, PeerID: id, Zone: "z", Cluster: "c"}
		peers[i].client = announceclient.New(peers[i].pctx, ring, nil)
		byID[id] = i
	}

	model := make([]map[int]latest, w.Torrents) // torrent -> peer -> latest announce
	for i := range model {
		model[i] = map[int]latest{}
	}
	wkey := sha256.Sum256([]byte(ev.JSON(w)))
	wk := hex.EncodeToString(wkey[:8])

	for si, st := range w.Steps {
		caseID := fmt.Sprintf("%s/%d", wid, si)
		if rc := run.ReplayCase(); rc != "" && rc != caseID {
			// earlier steps still have to be sent to rebuild the store state
			if rcStep(rc) < si {
				break
			}
		}
		p := peers[st.Peer]
		version := announceclient.V2
		if st.V1 {
			version = announceclient.V1
		}
		others := 0
		for q := range model[st.Torrent] {
			if q != st.Peer {
				others++
			}
		}
		hasOrigins := w.Origins[st.Torrent] > 0 && !w.OriginFail[st.Torrent]
		got, gotInterval, err := p.client.Announce(digests[st.Torrent], hashes[st.Torrent], st.Complete, version)
		model[st.Torrent][st.Peer] = latest{p.pctx.IP, p.pctx.Port, st.Complete}
		run.Case(wk+"/"+fmt.Sprint(si), !st.Complete && (others > 0 || hasOrigins))
		run.Count("announces_"+w.Store+"_"+w.Policy, 1)
		if st.V1 {
			run.Count("announces_v1", 1)
		}

		wit := func(extra map[string]interface{}) map[string]interface{} {
			m := map[string]interface{}{"world": w, "step": si, "announcer": p.pctx.PeerID.String()[:8], "announcer_complete": st.Complete, "handout": render(got)}
			for k, v := range extra {
				m[k] = v
			}
			return m
		}
		if err != nil {
			run.Violation("announce-error", caseID, wit(map[string]interface{}{"err": err.Error()}))
			continue
		}
		if gotInterval != interval {
			run.Violation("interval-differs-from-config", caseID, wit(map[string]interface{}{"interval": gotInterval.String()}))
		}
		if st.Complete {
			if len(got) != 0 {
				run.Violation("handout-for-complete-announcer-not-empty", caseID, wit(nil))
			}
			run.Count("empty_handouts_for_complete_announcer", 1)
			continue
		}
		run.Count("handout_entries", int64(len(got)))

		seen := map[core.PeerID]bool{}
		agents := 0
		for _, e := range got {
			if e.PeerID == p.pctx.PeerID {
				run.Violation("announcer-listed-in-own-handout", caseID, wit(nil))
			}
			if seen[e.PeerID] {
				run.Violation("peer-listed-twice", caseID, wit(nil))
			}
			seen[e.PeerID] = true
			if e.Origin {
				if !originIDs[st.Torrent][e.PeerID] {
					run.Violation("origin-entry-not-an-origin-of-the-blob", caseID, wit(nil))
				}
				run.Count("origin_entries", 1)
				continue
			}
			agents++
			q, ok := byID[e.PeerID]
			l, announced := model[st.Torrent][q]
			if !ok || !announced {
				run.Violation("agent-entry-never-announced-for-torrent", caseID, wit(nil))
				continue
			}
			if e.IP != l.ip || e.Port != l.port {
				run.Violation("agent-entry-address-differs-from-announce", caseID, wit(map[string]interface{}{"expected": fmt.Sprintf("%s:%d", l.ip, l.port)}))
			}
			if w.Store == "local" && e.Complete != l.complete {
				run.Violation("agent-entry-flag-differs-from-latest-announce", caseID, wit(map[string]interface{}{"peer": e.PeerID.String()[:8], "latest_complete": l.complete}))
			}
		}
		if agents > w.Limit {
			run.Violation("more-agents-than-handout-limit", caseID, wit(map[string]interface{}{"agents": agents}))
		}
		if agents == w.Limit && len(model[st.Torrent]) > w.Limit {
			run.Count("handouts_truncated_by_limit", 1)
		}
		if w.Policy == "completeness" {
			rank := map[string]int{"seeder": 0, "origin": 1, "incomplete": 2}
			for i := 1; i < len(got); i++ {
				a, b := classOf(got[i-1]), classOf(got[i])
				if rank[a] > rank[b] {
					run.Violation("order/completeness/"+a+"-before-"+b, caseID, wit(nil))
					break
				}
			}
			classes := map[string]bool{}
			for _, e := range got {
				classes[classOf(e)] = true
			}
			if len(classes) >= 2 {
				run.Count("ordered_handouts_with_mixed_classes", 1)
			}
		}
	}
	return true
}

func rcStep(rc string) int {
	i := strings.LastIndex(rc, "/")
	n := 0
	fmt.Sscanf(rc[i+1:], "%d", &n)
	return n
}
