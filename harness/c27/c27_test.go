// C27: the in-memory peer store returns fresh, distinct announcements.
//
// Model-diff + race monitor on the real peerstore.LocalStore (mock clock, the
// two cleanup passes run on demand through export_verif_c27.go).
//
// Phase 1 (sequential histories): UpdatePeer / GetPeers(n) / clock advance /
// cleanup-entries / cleanup-groups over a small universe; a reference model
// peer -> (latest announce, expiresAt) judges every GetPeers and, after every
// step, a GetPeers(all) of every torrent.
//
// Phase 2 (forced windows): a cleanup pass is started with some entries
// expired; the clock observer releases announcers (renewing expired entries,
// refreshing fresh ones, adding new ones), the other cleanup pass and readers
// while the pass is inside its scan, so that the renewals land between the
// pass's scan and its write-locked removal.
//
// Phase 3 (stress, under -race): steady announcers keep their entries always
// fresh, lapsing announcers let theirs expire and renew them the moment they
// expire, both cleanup passes loop, the clock advances in sub-TTL steps, and
// readers assert that no fresh peer is ever missing.
//
// Oracle (never stricter than the statement): at most n entries, distinct peer
// ids, every entry equals the peer's most recent announcement, and a peer whose
// most recent announcement is unexpired is never missing from GetPeers(all).
// Entries past their TTL may or may not be listed (DESIGN 3.40).
package c27

import (
	"fmt"
	"math/rand"
	"runtime"
	"sort"
	"sync"
	"sync/atomic"
	"testing"
	"time"

	"go.uber.org/zap"

	"github.com/uber/kraken/core"
	"github.com/uber/kraken/tracker/peerstore"
	"github.com/uber/kraken/utils/log"

	"verif/harness/internal/ev"
	"verif/harness/internal/gen"
)

const big = 1 << 20

var base = time.Date(2030, 1, 1, 0, 0, 0, 0, time.UTC)

var ttlChoices = []time.Duration{time.Second, 30 * time.Second, 5 * time.Minute, 5 * time.Hour}

func mkHash(r *rand.Rand) core.InfoHash {
	var h core.InfoHash
	copy(h[:], gen.Bytes(r, 20))
	return h
}

func mkPeerID(r *rand.Rand) core.PeerID {
	var p core.PeerID
	copy(p[:], gen.Bytes(r, 20))
	return p
}

func render(ps []*core.PeerInfo) []string {
	out := make([]string, 0, len(ps))
	for _, p := range ps {
		out = append(out, fmt.Sprintf("%s|%s|%d|origin=%v|complete=%v", p.PeerID.String()[:8], p.IP, p.Port, p.Origin, p.Complete))
	}
	sort.Strings(out)
	return out
}

func TestC27(t *testing.T) {
	run := ev.Start(t, "C27", "exploration",
		"(1) PRNG histories of 30-120 ops (announce with changing ip/port/flag, GetPeers(n) for n in 0..all, clock advances to limit-1ns / limit+1ns / fractions and multiples of the TTL, "+
			"cleanup-entries, cleanup-groups) over 1-4 torrents x 2-10 peers, TTL 1s-5h; non-trivial when a cleanup pass ran while the model held both an expired and a fresh entry and an expired entry was then observed gone. "+
			"(2) forced-window cases (1-3 groups, 2-40 entries, part expired; announcers / the other pass / readers released at a PRNG-chosen clock read inside the hooked pass); non-trivial when an announce completed while the pass was running. "+
			"(3) stress configs (8 steady + 2-4 lapsing announcers, 2 cleanup loops, 2 readers, clock stepped TTL/3..TTL/7) under the race detector; non-trivial when lapsed entries were renewed and reads were judged. "+
			"distinct = distinct generated history / case / config.")
	defer run.Finish()
	run.Assume("the clock only moves forward (mock clock advanced by the harness)")
	run.Assume("a peer id is announced by one goroutine at a time in the concurrent phases (announcements of one peer are totally ordered)")
	log.SetGlobalLogger(zap.NewNop().Sugar())

	t.Run("sequential", func(t *testing.T) { phaseSequential(t, run) })
	t.Run("forced", func(t *testing.T) { phaseForced(t, run) })
	t.Run("stress", func(t *testing.T) { phaseStress(t, run) })
}

// ===========================================================================
// Phase 1: sequential model-diff

type seqOp struct {
	Kind     string `json:"k"`
	H        int    `json:"h,omitempty"`
	P        int    `json:"p,omitempty"`
	IP       string `json:"ip,omitempty"`
	Port     int    `json:"port,omitempty"`
	Complete bool   `json:"c,omitempty"`
	N        int    `json:"n,omitempty"`
	AdvNs    int64  `json:"adv,omitempty"`
}

type seqSpec struct {
	TTLNs  int64   `json:"ttl_ns"`
	Hashes int     `json:"hashes"`
	Peers  int     `json:"peers"`
	Ops    []seqOp `json:"ops"`
}

func genSeq(r *rand.Rand) seqSpec {
	ttl := ttlChoices[r.Intn(len(ttlChoices))]
	s := seqSpec{TTLNs: int64(ttl), Hashes: 1 + r.Intn(4), Peers: 2 + r.Intn(9)}
	n := 30 + r.Intn(91)
	for i := 0; i < n; i++ {
		x := r.Intn(100)
		switch {
		case x < 45:
			s.Ops = append(s.Ops, seqOp{Kind: "announce", H: r.Intn(s.Hashes), P: r.Intn(s.Peers),
				IP: fmt.Sprintf("10.0.%d.%d", r.Intn(3), r.Intn(3)), Port: r.Intn(4), Complete: r.Intn(2) == 0})
		case x < 62:
			n := r.Intn(s.Peers + 2)
			if r.Intn(3) == 0 {
				n = big
			}
			s.Ops = append(s.Ops, seqOp{Kind: "get", H: r.Intn(s.Hashes), N: n})
		case x < 80:
			var d time.Duration
			switch r.Intn(7) {
			case 0:
				d = ttl / 10
			case 1:
				d = ttl / 3
			case 2:
				d = ttl / 2
			case 3:
				d = ttl - 1 // limit - 1 tick
			case 4:
				d = ttl + 1 // limit + 1 tick
			case 5:
				d = 2 * ttl
			case 6:
				d = time.Duration(1 + r.Int63n(int64(ttl)))
			}
			s.Ops = append(s.Ops, seqOp{Kind: "advance", AdvNs: int64(d)})
		case x < 90:
			s.Ops = append(s.Ops, seqOp{Kind: "cleanup_entries"})
		default:
			s.Ops = append(s.Ops, seqOp{Kind: "cleanup_groups"})
		}
	}
	return s
}

type mEntry struct {
	ip        string
	port      int
	complete  bool
	expiresAt time.Time
}

// parallel runs body(ci) for ci in [0,n) on w goroutines over disjoint case
// ranges; every case draws from its own seed-derived PRNG stream, so the case
// list does not depend on the scheduling of the workers.
func parallel(n, w int, body func(ci int) bool) {
	var wg sync.WaitGroup
	var abort atomic.Bool
	for k := 0; k < w; k++ {
		wg.Add(1)
		go func(k int) {
			defer wg.Done()
			for ci := k; ci < n && !abort.Load(); ci += w {
				if !body(ci) {
					abort.Store(true)
				}
			}
		}(k)
	}
	wg.Wait()
}

func phaseSequential(t *testing.T, run *ev.Run) {
	n := run.N(2400, 60000)
	parallel(n, 8, func(ci int) bool {
		caseID := fmt.Sprintf("seq-%d", ci)
		if rc := run.ReplayCase(); rc != "" && rc != caseID {
			return true
		}
		r := run.Rand(caseID)
		spec := genSeq(r)
		runSequential(run, caseID, spec, r)
		if run.WantSample() && ci%211 == 0 {
			run.Sample(map[string]interface{}{"phase": "sequential", "ttl_ns": spec.TTLNs, "hashes": spec.Hashes, "peers": spec.Peers, "first_ops": spec.Ops[:8]})
		}
		return true
	})
}

func runSequential(run *ev.Run, caseID string, spec seqSpec, idr *rand.Rand) {
	ttl := time.Duration(spec.TTLNs)
	clk := newVClock(base)
	store := peerstore.NewLocalStore(peerstore.LocalConfig{TTL: ttl}, clk)
	defer store.Close()

	hashes := make([]core.InfoHash, spec.Hashes)
	for i := range hashes {
		hashes[i] = mkHash(idr)
	}
	peers := make([]core.PeerID, spec.Peers)
	pidx := map[core.PeerID]int{}
	for i := range peers {
		peers[i] = mkPeerID(idr)
		pidx[peers[i]] = i
	}
	model := make([]map[int]*mEntry, spec.Hashes)
	for i := range model {
		model[i] = map[int]*mEntry{}
	}

	counts := map[string]int64{}
	cnt := func(k string, n int64) { counts[k] += n }
	defer func() {
		for k, v := range counts {
			run.Count(k, v)
		}
	}()
	mixedCleanup, forgotten := false, false
	lastMut := "start"
	witness := func(step int, extra map[string]interface{}) map[string]interface{} {
		w := map[string]interface{}{"spec": spec, "failed_at_step": step, "clock_ns_since_base": clk.peek().Sub(base).Nanoseconds()}
		for k, v := range extra {
			w[k] = v
		}
		return w
	}

	// judge checks one GetPeers result against the model.
	judge := func(step, h, n int, got []*core.PeerInfo, err error, where string) {
		if err != nil {
			run.Violation("get-peers-error", caseID, witness(step, map[string]interface{}{"err": err.Error()}))
			return
		}
		now := clk.peek()
		if n >= 0 && len(got) > n {
			run.Violation("more-than-n-returned", caseID, witness(step, map[string]interface{}{"n": n, "returned": render(got)}))
		}
		seen := map[int]bool{}
		for _, p := range got {
			i, ok := pidx[p.PeerID]
			e := model[h][i]
			if !ok || e == nil {
				run.Violation("never-announced-peer-returned", caseID, witness(step, map[string]interface{}{"h": h, "returned": render(got)}))
				continue
			}
			if seen[i] {
				run.Violation("duplicate-peer-returned", caseID, witness(step, map[string]interface{}{"h": h, "returned": render(got)}))
			}
			seen[i] = true
			if p.IP != e.ip || p.Port != e.port || p.Complete != e.complete {
				run.Violation("entry-differs-from-latest-announce", caseID, witness(step, map[string]interface{}{
					"h": h, "peer": i, "latest": fmt.Sprintf("%s|%d|complete=%v", e.ip, e.port, e.complete), "returned": render(got)}))
			}
			if p.Origin {
				run.Violation("origin-flag-set", caseID, witness(step, map[string]interface{}{"h": h, "returned": render(got)}))
			}
		}
		cnt("seq_entries_judged", int64(len(got)))
		if n >= len(model[h]) {
			for i, e := range model[h] {
				fresh := now.Before(e.expiresAt)
				switch {
				case fresh && !seen[i]:
					run.Violation("fresh-peer-missing/after-"+lastMut, caseID, witness(step, map[string]interface{}{
						"h": h, "peer": i, "expires_in_ns": e.expiresAt.Sub(now).Nanoseconds(), "where": where, "returned": render(got)}))
				case !fresh && !seen[i]:
					forgotten = true
					cnt("seq_expired_entry_observed_gone", 1)
				case !fresh && seen[i]:
					cnt("seq_expired_entry_still_listed", 1)
				default:
					cnt("seq_fresh_entry_present", 1)
				}
			}
		}
	}

	for step, op := range spec.Ops {
		switch op.Kind {
		case "announce":
			if err := store.UpdatePeer(hashes[op.H], core.NewPeerInfo(peers[op.P], op.IP, op.Port, false, op.Complete)); err != nil {
				run.Violation("update-peer-error", caseID, witness(step, map[string]interface{}{"err": err.Error()}))
			}
			model[op.H][op.P] = &mEntry{op.IP, op.Port, op.Complete, clk.peek().Add(ttl)}
			lastMut = "announce"
		case "get":
			got, err := store.GetPeers(hashes[op.H], op.N)
			judge(step, op.H, op.N, got, err, "get-op")
			cnt("seq_gets", 1)
		case "advance":
			now := clk.advance(time.Duration(op.AdvNs))
			// never sit exactly on an expiry instant (After vs >= is not part of the statement)
			for again := true; again; {
				again = false
				for _, m := range model {
					for _, e := range m {
						if e.expiresAt.Equal(now) {
							now = clk.advance(1)
							again = true
						}
					}
				}
			}
			lastMut = "advance"
		case "cleanup_entries", "cleanup_groups":
			now := clk.peek()
			exp, fresh := 0, 0
			for _, m := range model {
				for _, e := range m {
					if now.Before(e.expiresAt) {
						fresh++
					} else {
						exp++
					}
				}
			}
			if exp > 0 && fresh > 0 {
				mixedCleanup = true
			}
			if op.Kind == "cleanup_entries" {
				store.VerifC27CleanupExpiredPeerEntries()
			} else {
				store.VerifC27CleanupExpiredPeerGroups()
			}
			cnt("seq_"+op.Kind, 1)
			lastMut = op.Kind
		}
		// observable state after every step
		for h := range hashes {
			got, err := store.GetPeers(hashes[h], big)
			judge(step, h, big, got, err, "post-step")
		}
	}
	run.Case(ev.JSON(spec), mixedCleanup && forgotten)
}

// ===========================================================================
// Phase 2: forced windows

type forcedAnn struct {
	G int `json:"g"`
	P int `json:"p"` // index into the group's peers; >= old+mid means a brand-new peer
}

type forcedSpec struct {
	TTLNs       int64         `json:"ttl_ns"`
	Old         []int         `json:"old"` // per group: entries announced at t0 (expired when the pass runs)
	Mid         []int         `json:"mid"` // per group: entries announced at t0+TTL/2 (fresh when the pass runs)
	DeltaNs     int64         `json:"delta_ns"`
	Hooked      string        `json:"hooked_pass"`
	Trigger     int           `json:"trigger_clock_read"`
	OtherPass   bool          `json:"other_pass_concurrently"`
	Announcers  [][]forcedAnn `json:"announcers"`
	Readers     int           `json:"readers"`
	PauseMicros int           `json:"pause_us"`
}

func genForced(r *rand.Rand) forcedSpec {
	ttl := ttlChoices[r.Intn(len(ttlChoices))]
	s := forcedSpec{TTLNs: int64(ttl), DeltaNs: 1 + r.Int63n(int64(ttl)/4), Hooked: siteCleanupEntries,
		OtherPass: r.Intn(3) == 0, Readers: r.Intn(3), PauseMicros: 50 + r.Intn(250)}
	if r.Intn(5) == 0 {
		s.Hooked = siteCleanupGroups
	}
	g := 1 + r.Intn(3)
	total := 0
	for i := 0; i < g; i++ {
		old := 1 + r.Intn(20)
		mid := r.Intn(21)
		if r.Intn(4) == 0 {
			mid = 0 // the whole group is expired: also a candidate for the groups pass
		}
		s.Old = append(s.Old, old)
		s.Mid = append(s.Mid, mid)
		total += old + mid
	}
	if s.Hooked == siteCleanupGroups {
		total = g // one clock read per group before the write lock
	}
	s.Trigger = 1 + r.Intn(total)
	na := 1 + r.Intn(4)
	for a := 0; a < na; a++ {
		var seq []forcedAnn
		for k := 1 + r.Intn(3); k > 0; k-- {
			gi := r.Intn(g)
			var p int
			switch x := r.Intn(10); {
			case x < 6:
				p = r.Intn(s.Old[gi]) // renew an expired entry
			case x < 8 && s.Mid[gi] > 0:
				p = s.Old[gi] + r.Intn(s.Mid[gi]) // refresh a fresh entry
			default:
				p = s.Old[gi] + s.Mid[gi] + r.Intn(3) // new peer
			}
			seq = append(seq, forcedAnn{gi, p})
		}
		s.Announcers = append(s.Announcers, seq)
	}
	return s
}

func phaseForced(t *testing.T, run *ev.Run) {
	n := run.N(2400, 30000)
	parallel(n, 6, func(ci int) bool {
		caseID := fmt.Sprintf("forced-%d", ci)
		if rc := run.ReplayCase(); rc != "" && rc != caseID {
			return true
		}
		r := run.Rand(caseID)
		spec := genForced(r)
		if !runForced(run, caseID, spec, r) {
			return false
		}
		if run.WantSample() && ci%301 == 0 {
			run.Sample(map[string]interface{}{"phase": "forced", "spec": spec})
		}
		return true
	})
}

// ann is one announce issued for a (group, peer) pair.
type ann struct {
	port     int
	complete bool
	at       time.Time // clock value read before the announce was issued
	done     int64     // completion stamp (0 = not completed yet)
}

func runForced(run *ev.Run, caseID string, spec forcedSpec, idr *rand.Rand) bool {
	ttl := time.Duration(spec.TTLNs)
	clk := newVClock(base)
	store := peerstore.NewLocalStore(peerstore.LocalConfig{TTL: ttl}, clk)
	defer store.Close()

	g := len(spec.Old)
	hashes := make([]core.InfoHash, g)
	ids := make([][]core.PeerID, g)
	idx := make([]map[core.PeerID]int, g)
	for i := 0; i < g; i++ {
		hashes[i] = mkHash(idr)
		idx[i] = map[core.PeerID]int{}
		for p := 0; p < spec.Old[i]+spec.Mid[i]+3; p++ {
			id := mkPeerID(idr)
			ids[i] = append(ids[i], id)
			idx[i][id] = p
		}
	}
	ip := func(gi, p int) string { return fmt.Sprintf("10.%d.%d.%d", gi, p/250, p%250) }

	// state[g][p]: every announce issued, in order (one goroutine per (g,p) at a time is NOT
	// guaranteed here, so each (g,p) is owned by the announcer that first draws it; see below)
	var mu sync.Mutex
	state := make([]map[int][]*ann, g) // per pair: every announce issued, in issue order
	for i := range state {
		state[i] = map[int][]*ann{}
	}
	var stamp, freshPresent atomic.Int64
	defer func() { run.Count("forced_fresh_entry_present", freshPresent.Load()) }()

	announce := func(gi, p, port int, complete bool) {
		at := clk.peek()
		l := &ann{port: port, complete: complete, at: at}
		mu.Lock()
		state[gi][p] = append(state[gi][p], l)
		mu.Unlock()
		if err := store.UpdatePeer(hashes[gi], core.NewPeerInfo(ids[gi][p], ip(gi, p), port, false, complete)); err != nil {
			run.Violation("update-peer-error", caseID, map[string]interface{}{"spec": spec, "err": err.Error()})
		}
		mu.Lock()
		l.done = stamp.Add(1)
		mu.Unlock()
	}

	for i := 0; i < g; i++ {
		for p := 0; p < spec.Old[i]; p++ {
			announce(i, p, 1, false)
		}
	}
	clk.advance(ttl / 2)
	for i := 0; i < g; i++ {
		for p := spec.Old[i]; p < spec.Old[i]+spec.Mid[i]; p++ {
			announce(i, p, 1, true)
		}
	}
	clk.advance(ttl/2 + time.Duration(spec.DeltaNs))
	// now: old entries expired (by DeltaNs), mid entries fresh for another TTL/2-DeltaNs > TTL/4

	// A (g,p) pair renewed by two announcers would make "most recent" ambiguous:
	// give every pair to the first announcer that draws it, drop later draws.
	owner := map[[2]int]int{}
	plans := make([][]forcedAnn, len(spec.Announcers))
	for a, seq := range spec.Announcers {
		for _, x := range seq {
			k := [2]int{x.G, x.P}
			if o, ok := owner[k]; ok && o != a {
				continue
			}
			owner[k] = a
			plans[a] = append(plans[a], x)
		}
	}

	start := make(chan struct{})
	var startOnce sync.Once
	release := func() { startOnce.Do(func() { close(start) }) }
	var started atomic.Int32
	nWait := int32(len(plans))
	var reads atomic.Int64
	watchdog := false
	clk.setHook(func(site string) {
		if site != spec.Hooked {
			return
		}
		if int(reads.Add(1)) != spec.Trigger {
			return
		}
		release()
		deadline := time.Now().Add(5 * time.Second) // watchdog only
		for started.Load() < nWait {
			if time.Now().After(deadline) {
				watchdog = true
				return
			}
			runtime.Gosched()
		}
		// scheduling aid only: give the released goroutines time to reach the group lock
		time.Sleep(time.Duration(spec.PauseMicros) * time.Microsecond)
	})

	var wg sync.WaitGroup
	for a := range plans {
		wg.Add(1)
		go func(a int) {
			defer wg.Done()
			<-start
			started.Add(1)
			for k, x := range plans[a] {
				announce(x.G, x.P, 100+10*a+k, (a+k)%2 == 0)
			}
		}(a)
	}
	if spec.OtherPass {
		wg.Add(1)
		go func() {
			defer wg.Done()
			<-start
			if spec.Hooked == siteCleanupEntries {
				store.VerifC27CleanupExpiredPeerGroups()
			} else {
				store.VerifC27CleanupExpiredPeerEntries()
			}
		}()
	}

	// judge a GetPeers(all) result of group gi; doneBefore = state snapshot taken before the call
	// snap: per pair, a copy of the announces issued so far and the index of the
	// latest one known to be complete
	type snap struct {
		hist    []ann
		doneIdx int
	}
	snapshot := func(gi int) map[int]snap {
		mu.Lock()
		defer mu.Unlock()
		out := map[int]snap{}
		for p, h := range state[gi] {
			sn := snap{doneIdx: -1}
			for i, l := range h {
				sn.hist = append(sn.hist, *l)
				if l.done != 0 {
					sn.doneIdx = i
				}
			}
			out[p] = sn
		}
		return out
	}
	// judge a GetPeers(all) result of group gi; before = snapshot taken before the call
	judge := func(gi int, before map[int]snap, got []*core.PeerInfo, err error, where string) {
		after := snapshot(gi)
		now := clk.peek()
		if err != nil {
			run.Violation("get-peers-error", caseID, map[string]interface{}{"spec": spec, "err": err.Error()})
			return
		}
		seen := map[int]bool{}
		for _, pi := range got {
			p, ok := idx[gi][pi.PeerID]
			if !ok || len(after[p].hist) == 0 {
				run.Violation("never-announced-peer-returned", caseID, map[string]interface{}{"spec": spec, "g": gi, "returned": render(got)})
				continue
			}
			if seen[p] {
				run.Violation("duplicate-peer-returned/concurrent-"+spec.Hooked, caseID, map[string]interface{}{"spec": spec, "g": gi, "where": where, "returned": render(got)})
			}
			seen[p] = true
			// legal values: the latest announce complete before the call, or any issued later
			lo := before[p].doneIdx
			if lo < 0 {
				lo = 0
			}
			match := false
			for _, a := range after[p].hist[lo:] {
				if pi.Port == a.port && pi.Complete == a.complete {
					match = true
				}
			}
			if pi.IP != ip(gi, p) || !match || pi.Origin {
				run.Violation("entry-differs-from-latest-announce/concurrent-"+spec.Hooked, caseID, map[string]interface{}{
					"spec": spec, "g": gi, "peer": p, "where": where, "candidates": fmt.Sprint(after[p].hist[lo:]), "returned": render(got)})
			}
		}
		for p, b := range before {
			if b.doneIdx < 0 {
				continue
			}
			// the latest announce known to be complete before the call; a later one only extends the expiry
			a := b.hist[b.doneIdx]
			if a.at.Add(ttl).After(now) {
				if !seen[p] {
					run.Violation("fresh-peer-missing/concurrent-"+spec.Hooked, caseID, map[string]interface{}{
						"spec": spec, "g": gi, "peer": p, "where": where, "announced_ns_before_read": now.Sub(a.at).Nanoseconds(), "returned": render(got)})
				} else {
					freshPresent.Add(1)
				}
			}
		}
	}
	for rd := 0; rd < spec.Readers; rd++ {
		wg.Add(1)
		go func(rd int) {
			defer wg.Done()
			<-start
			for k := 0; k < 4; k++ {
				gi := (rd + k) % g
				before := snapshot(gi)
				got, err := store.GetPeers(hashes[gi], big)
				judge(gi, before, got, err, "concurrent-reader")
				run.Count("forced_concurrent_reads", 1)
			}
		}(rd)
	}

	if spec.Hooked == siteCleanupEntries {
		store.VerifC27CleanupExpiredPeerEntries()
	} else {
		store.VerifC27CleanupExpiredPeerGroups()
	}
	passDone := stamp.Add(1)
	triggered := int(reads.Load()) >= spec.Trigger
	release() // a trigger beyond the pass's clock reads: run the rest after the pass
	done := make(chan struct{})
	go func() { wg.Wait(); close(done) }()
	select {
	case <-done:
	case <-time.After(60 * time.Second):
		run.Inconclusive("C27 forced phase: goroutines did not finish within the 60 s watchdog (" + caseID + ")")
		return false
	}
	clk.setHook(nil)
	if watchdog {
		run.Inconclusive("C27 forced phase: released goroutines did not start within the watchdog (" + caseID + ")")
		return false
	}

	during := 0
	mu.Lock()
	for gi := range state {
		for _, h := range state[gi] {
			for _, l := range h {
				if l.port >= 100 && l.done != 0 && l.done < passDone {
					during++
				}
			}
		}
	}
	mu.Unlock()
	if triggered {
		run.Count("forced_trigger_reached", 1)
	}
	run.Count("forced_announces_completed_during_pass", int64(during))

	// quiescent checks: now, and again after both passes ran once more
	for round := 0; round < 2; round++ {
		for gi := 0; gi < g; gi++ {
			before := snapshot(gi)
			got, err := store.GetPeers(hashes[gi], big)
			judge(gi, before, got, err, fmt.Sprintf("quiescent-%d", round))
		}
		store.VerifC27CleanupExpiredPeerEntries()
		store.VerifC27CleanupExpiredPeerGroups()
	}
	// (announcers released inside the groups pass wait for the store lock it holds: they run right after it)
	run.Case(ev.JSON(spec), triggered && (during > 0 || spec.Hooked == siteCleanupGroups))
	return true
}

// ===========================================================================
// Phase 3: stress under the race detector

type stressSpec struct {
	TTLNs      int64 `json:"ttl_ns"`
	Hashes     int   `json:"hashes"`
	StepDiv    int   `json:"step_is_ttl_over"`
	Steady     []int `json:"steady_peers_per_announcer"`
	Lapsing    []int `json:"lapsing_peers_per_announcer"`
	Steps      int   `json:"steps"`
	ReadsPer   int   `json:"min_reads_per_step"`
	PassesPer  int   `json:"min_passes_per_step"`
	SmallReads bool  `json:"small_n_reads"`
}

type sPeer struct {
	h, owner int
	id       core.PeerID
	ip       string
	steady   bool

	mu         sync.Mutex
	startedSeq int
	doneSeq    int
	doneAt     time.Time // clock read before the last completed announce was issued
}

// gate is a generation counter the clock goroutine bumps after every step;
// workers do a bounded amount of work per generation and then block on it, so
// the work of a config is a function of its step count, not of the wall clock.
type gate struct {
	mu  sync.Mutex
	gen int
	ch  chan struct{}
}

func newGate() *gate { return &gate{ch: make(chan struct{})} }

func (g *gate) bump() {
	g.mu.Lock()
	g.gen++
	close(g.ch)
	g.ch = make(chan struct{})
	g.mu.Unlock()
}

// wait blocks until the generation differs from seen and returns it.
func (g *gate) wait(seen int) int {
	for {
		g.mu.Lock()
		gen, ch := g.gen, g.ch
		g.mu.Unlock()
		if gen != seen {
			return gen
		}
		<-ch
	}
}

func phaseStress(t *testing.T, run *ev.Run) {
	r := run.Rand("stress")
	n := run.N(4, 16)
	for ci := 0; ci < n; ci++ {
		spec := stressSpec{
			TTLNs:     int64(ttlChoices[r.Intn(len(ttlChoices))]),
			Hashes:    1 + r.Intn(3),
			StepDiv:   []int{3, 4, 7}[r.Intn(3)],
			Steps:     run.N(300, 1000),
			ReadsPer:  4 + r.Intn(8),
			PassesPer: 1 + r.Intn(3),
		}
		spec.SmallReads = r.Intn(2) == 0
		for a := 0; a < 8; a++ {
			spec.Steady = append(spec.Steady, 2+r.Intn(5))
		}
		for a := 2 + r.Intn(3); a > 0; a-- {
			spec.Lapsing = append(spec.Lapsing, 3+r.Intn(8))
		}
		idr := rand.New(rand.NewSource(r.Int63()))
		caseID := fmt.Sprintf("stress-%d", ci)
		if rc := run.ReplayCase(); rc != "" && rc != caseID {
			continue
		}
		if !runStress(run, caseID, spec, idr) {
			return
		}
		run.Sample(map[string]interface{}{"phase": "stress", "spec": spec})
	}
}

func runStress(run *ev.Run, caseID string, spec stressSpec, idr *rand.Rand) bool {
	ttl := time.Duration(spec.TTLNs)
	step := ttl / time.Duration(spec.StepDiv)
	clk := newVClock(base)
	store := peerstore.NewLocalStore(peerstore.LocalConfig{TTL: ttl}, clk)
	defer store.Close()

	hashes := make([]core.InfoHash, spec.Hashes)
	for i := range hashes {
		hashes[i] = mkHash(idr)
	}
	var all []*sPeer
	byHash := make([][]*sPeer, spec.Hashes)
	byID := map[core.PeerID]*sPeer{}
	mk := func(owner int, steady bool) *sPeer {
		p := &sPeer{h: idr.Intn(spec.Hashes), owner: owner, id: mkPeerID(idr), steady: steady,
			ip: fmt.Sprintf("10.1.%d.%d", len(all)/250, len(all)%250)}
		all = append(all, p)
		byHash[p.h] = append(byHash[p.h], p)
		byID[p.id] = p
		return p
	}
	var steadyOwn, lapsingOwn [][]*sPeer
	for a, k := range spec.Steady {
		var own []*sPeer
		for i := 0; i < k; i++ {
			own = append(own, mk(a, true))
		}
		steadyOwn = append(steadyOwn, own)
	}
	for a, k := range spec.Lapsing {
		var own []*sPeer
		for i := 0; i < k; i++ {
			own = append(own, mk(100+a, false))
		}
		lapsingOwn = append(lapsingOwn, own)
	}

	var stop atomic.Bool
	gt := newGate()
	var nReads, nEntries, nGroups, nRenewals, nAnnounces atomic.Int64

	announce := func(p *sPeer) {
		p.mu.Lock()
		p.startedSeq++
		seq := p.startedSeq
		p.mu.Unlock()
		at := clk.peek()
		if err := store.UpdatePeer(hashes[p.h], core.NewPeerInfo(p.id, p.ip, seq, false, seq%2 == 1)); err != nil {
			run.Violation("update-peer-error", caseID, map[string]interface{}{"spec": spec, "err": err.Error()})
		}
		p.mu.Lock()
		p.doneSeq = seq
		p.doneAt = at
		p.mu.Unlock()
		nAnnounces.Add(1)
	}

	var wg sync.WaitGroup
	for _, own := range steadyOwn {
		wg.Add(1)
		go func(own []*sPeer) {
			defer wg.Done()
			for gen := 0; !stop.Load(); gen = gt.wait(gen) {
				for k := 0; k < 2; k++ {
					for _, p := range own {
						announce(p)
					}
					runtime.Gosched()
				}
			}
		}(own)
	}
	for _, own := range lapsingOwn {
		wg.Add(1)
		go func(own []*sPeer) {
			defer wg.Done()
			for _, p := range own {
				announce(p)
			}
			for gen := 0; !stop.Load(); gen = gt.wait(gen) {
				for k := 0; k < 3; k++ {
					now := clk.peek()
					for _, p := range own {
						p.mu.Lock()
						expired := now.After(p.doneAt.Add(ttl))
						p.mu.Unlock()
						if expired {
							announce(p) // renew the moment it is seen expired: races with the cleanup passes
							nRenewals.Add(1)
						}
					}
					runtime.Gosched()
				}
			}
		}(own)
	}
	wg.Add(2)
	go func() {
		defer wg.Done()
		for gen := 0; !stop.Load(); gen = gt.wait(gen) {
			for k := 0; k < 2*spec.PassesPer; k++ {
				store.VerifC27CleanupExpiredPeerEntries()
				nEntries.Add(1)
				runtime.Gosched()
			}
		}
	}()
	go func() {
		defer wg.Done()
		for gen := 0; !stop.Load(); gen = gt.wait(gen) {
			for k := 0; k < 2*spec.PassesPer; k++ {
				store.VerifC27CleanupExpiredPeerGroups()
				nGroups.Add(1)
				runtime.Gosched()
			}
		}
	}()

	type snap struct {
		seq int
		at  time.Time
	}
	for rd := 0; rd < 2; rd++ {
		wg.Add(1)
		rseed := idr.Int63()
		go func(rd int) {
			defer wg.Done()
			rr := rand.New(rand.NewSource(rseed)) // picks which torrent / n to read next
			gen := 0
			for k := 0; !stop.Load(); k++ {
				if k == spec.ReadsPer {
					gen, k = gt.wait(gen), 0
					continue
				}
				h := rr.Intn(spec.Hashes)
				n := big
				if spec.SmallReads && rr.Intn(3) == 0 {
					n = rr.Intn(len(byHash[h]) + 1)
				}
				before := map[*sPeer]snap{}
				for _, p := range byHash[h] {
					p.mu.Lock()
					before[p] = snap{p.doneSeq, p.doneAt}
					p.mu.Unlock()
				}
				got, err := store.GetPeers(hashes[h], n)
				now := clk.peek()
				if err != nil {
					run.Violation("get-peers-error", caseID, map[string]interface{}{"spec": spec, "err": err.Error()})
					continue
				}
				if len(got) > n {
					run.Violation("more-than-n-returned/stress", caseID, map[string]interface{}{"spec": spec, "n": n, "returned": render(got)})
				}
				seen := map[*sPeer]bool{}
				for _, pi := range got {
					p := byID[pi.PeerID]
					if p == nil || p.h != h {
						run.Violation("never-announced-peer-returned/stress", caseID, map[string]interface{}{"spec": spec, "returned": render(got)})
						continue
					}
					if seen[p] {
						run.Violation("duplicate-peer-returned/stress", caseID, map[string]interface{}{"spec": spec, "returned": render(got)})
					}
					seen[p] = true
					p.mu.Lock()
					hi := p.startedSeq
					p.mu.Unlock()
					lo := before[p].seq
					if pi.Port < lo || pi.Port > hi || pi.IP != p.ip || pi.Complete != (pi.Port%2 == 1) || pi.Origin {
						run.Violation("entry-differs-from-latest-announce/stress", caseID, map[string]interface{}{
							"spec": spec, "latest_completed_seq_before_read": lo, "latest_started_seq_after_read": hi, "entry": render([]*core.PeerInfo{pi})})
					}
				}
				if n == big {
					for p, b := range before {
						if b.seq == 0 {
							continue
						}
						fresh := b.at.Add(ttl).After(now)
						if fresh && !seen[p] {
							kind := "lapsing"
							if p.steady {
								kind = "steady"
							}
							run.Violation("fresh-peer-missing/stress-"+kind, caseID, map[string]interface{}{
								"spec": spec, "steady": p.steady, "announced_ns_before_read_end": now.Sub(b.at).Nanoseconds(), "ttl_ns": spec.TTLNs,
								"seq": b.seq, "returned": len(got)})
						}
						if !fresh && !seen[p] {
							run.Count("stress_expired_entry_observed_gone", 1)
						}
					}
				}
				nReads.Add(1)
			}
		}(rd)
	}

	// the clock: advance one step once every steady peer has re-announced at the
	// current instant and the readers / passes made their minimum progress
	ok := true
	deadline := time.Now().Add(240 * time.Second) // watchdog only
	var r0, e0, g0 int64                          // progress counters at the start of the current generation
advance:
	for s := 0; s < spec.Steps; s++ {
		now := clk.peek()
		for {
			ready := nReads.Load()-r0 >= int64(spec.ReadsPer) && nEntries.Load()-e0 >= int64(spec.PassesPer) && nGroups.Load()-g0 >= int64(spec.PassesPer)
			if ready {
				for _, p := range all {
					if !p.steady {
						continue
					}
					p.mu.Lock()
					fresh := p.doneSeq > 0 && !p.doneAt.Before(now)
					p.mu.Unlock()
					if !fresh {
						ready = false
						break
					}
				}
			}
			if ready {
				break
			}
			if time.Now().After(deadline) {
				ok = false
				break advance
			}
			time.Sleep(20 * time.Microsecond) // pacing only
		}
		clk.advance(step + time.Duration(s%3)) // never a multiple of the TTL on the nanosecond
		r0, e0, g0 = nReads.Load(), nEntries.Load(), nGroups.Load()
		gt.bump()
	}
	stop.Store(true)
	gt.bump()
	wg.Wait()
	if !ok {
		run.Inconclusive("C27 stress phase: no progress within the 240 s watchdog (" + caseID + ")")
		return false
	}
	run.Count("stress_reads_judged", nReads.Load())
	run.Count("stress_announces", nAnnounces.Load())
	run.Count("stress_lapsed_renewals", nRenewals.Load())
	run.Count("stress_cleanup_entries_passes", nEntries.Load())
	run.Count("stress_cleanup_groups_passes", nGroups.Load())
	run.Case(ev.JSON(spec), nRenewals.Load() > 0 && nReads.Load() >= int64(spec.Steps))
	return true
}
