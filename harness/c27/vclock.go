package c27

import (
	"runtime"
	"strings"
	"sync/atomic"
	"time"

	"github.com/andres-erbsen/clock"
)

// vclock is kraken's mock clock (github.com/andres-erbsen/clock.Mock) with the
// one method LocalStore uses, Now, served from an atomic so that it can be
// advanced cheaply and read concurrently, plus an optional observer that is
// told which LocalStore function is reading the clock. The observer is the
// only "yield point" the check has inside the cleanup passes: the passes read
// the clock once per scanned entry (under the group's read lock) and once per
// re-check (under the write lock).
type vclock struct {
	*clock.Mock
	ns   atomic.Int64
	hook atomic.Pointer[func(site string)]
}

func newVClock(start time.Time) *vclock {
	c := &vclock{Mock: clock.NewMock()}
	c.ns.Store(start.UnixNano())
	return c
}

const (
	siteOther          = ""
	siteCleanupEntries = "cleanupExpiredPeerEntries"
	siteCleanupGroups  = "cleanupExpiredPeerGroups"
)

func (c *vclock) Now() time.Time {
	if h := c.hook.Load(); h != nil {
		(*h)(callerSite())
	}
	return time.Unix(0, c.ns.Load()).UTC()
}

// peek reads the clock without notifying the observer (harness-side reads).
func (c *vclock) peek() time.Time { return time.Unix(0, c.ns.Load()).UTC() }

func (c *vclock) advance(d time.Duration) time.Time {
	return time.Unix(0, c.ns.Add(int64(d))).UTC()
}

func (c *vclock) setHook(f func(site string)) {
	if f == nil {
		c.hook.Store(nil)
		return
	}
	c.hook.Store(&f)
}

// callerSite names the LocalStore pass that is reading the clock.
func callerSite() string {
	var pcs [12]uintptr
	n := runtime.Callers(3, pcs[:])
	frames := runtime.CallersFrames(pcs[:n])
	for {
		f, more := frames.Next()
		switch {
		case strings.HasSuffix(f.Function, ".cleanupExpiredPeerEntries"):
			return siteCleanupEntries
		case strings.HasSuffix(f.Function, ".cleanupExpiredPeerGroups"):
			return siteCleanupGroups
		}
		if !more {
			return siteOther
		}
	}
}
