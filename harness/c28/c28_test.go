// C28: the Redis peer store round-trips every announced peer.
//
// Oracle-gen monitor. The real peerstore.RedisStore runs against an in-process
// miniredis with a mock clock (miniredis' notion of "now" is kept equal to the
// mock clock, so key expiry is a function of the generated clock advances
// only). Every case announces a batch of generated peers (random 20-byte ids;
// IPv4, IPv6 in full / compressed / IPv4-mapped form, host names; ports
// 0-65535; both completion flags; some incomplete->complete re-announces) for
// one info hash, spread over several peer-set windows that are all still inside
// the store's look-back range, and then reads them back:
//
//   - GetPeers(h, big) must return every announced peer with the identical
//     (peer id, address, port, completion flag) and nothing else;
//   - GetPeers(h, small n) must return at most n entries, every one of them an
//     announced peer with identical fields.
package c28

import (
	"fmt"
	"math/rand"
	"sort"
	"strings"
	"sync"
	"sync/atomic"
	"testing"
	"time"

	"github.com/alicebob/miniredis"
	"github.com/andres-erbsen/clock"
	"go.uber.org/zap"

	"github.com/uber/kraken/core"
	"github.com/uber/kraken/tracker/peerstore"
	"github.com/uber/kraken/utils/log"

	"verif/harness/internal/ev"
	"verif/harness/internal/gen"
)

// ---- generators -----------------------------------------------------------

func genIPv4(r *rand.Rand) string {
	return fmt.Sprintf("%d.%d.%d.%d", r.Intn(256), r.Intn(256), r.Intn(256), r.Intn(256))
}

func genIPv6Full(r *rand.Rand) string {
	g := make([]string, 8)
	for i := range g {
		g[i] = fmt.Sprintf("%04x", r.Intn(65536))
	}
	return strings.Join(g, ":")
}

// genIPv6Compressed returns an address in RFC 5952 style with a "::" run.
func genIPv6Compressed(r *rand.Rand) string {
	switch r.Intn(8) {
	case 0:
		return "::1"
	case 1:
		return fmt.Sprintf("fe80::%x", 1+r.Intn(65535))
	}
	left := r.Intn(5)         // groups before "::"
	right := r.Intn(6 - left) // groups after "::" (left+right <= 6)
	if left == 0 && right == 0 {
		right = 1
	}
	var l, rr []string
	for i := 0; i < left; i++ {
		l = append(l, fmt.Sprintf("%x", 1+r.Intn(65535)))
	}
	for i := 0; i < right; i++ {
		rr = append(rr, fmt.Sprintf("%x", 1+r.Intn(65535)))
	}
	return strings.Join(l, ":") + "::" + strings.Join(rr, ":")
}

func genIPv6Mapped(r *rand.Rand) string {
	return "::ffff:" + genIPv4(r)
}

func genHostname(r *rand.Rand) string {
	const alnum = "abcdefghijklmnopqrstuvwxyz0123456789"
	label := func() string {
		n := 1 + r.Intn(10)
		b := make([]byte, n)
		for i := range b {
			switch {
			case i > 0 && i < n-1 && r.Intn(6) == 0:
				b[i] = '-'
			default:
				b[i] = alnum[r.Intn(len(alnum))]
			}
		}
		s := string(b)
		if r.Intn(10) == 0 {
			s = strings.ToUpper(s)
		}
		return s
	}
	switch r.Intn(6) {
	case 0:
		return "localhost"
	case 1:
		return label()
	}
	n := 2 + r.Intn(4)
	parts := make([]string, n)
	for i := range parts {
		parts[i] = label()
	}
	return strings.Join(parts, ".")
}

var addrClasses = []string{"ipv4", "ipv6-full", "ipv6-compressed", "ipv6-mapped", "hostname",
	"ipv6-zoned", "hostname-underscore", "hostname-trailing-dot", "hostname-upper-case", "hostname-single-label",
	"hostname-numeric-label", "hostname-long-label"}

// genUnusual: address strings an announcer can legitimately send that are
// neither plain IP literals nor plain lower-case DNS names.
func genUnusual(r *rand.Rand, class string) string {
	const alnum = "abcdefghijklmnopqrstuvwxyz0123456789"
	word := func(min, max int) string {
		n := min + r.Intn(max-min+1)
		b := make([]byte, n)
		for i := range b {
			b[i] = alnum[r.Intn(len(alnum))]
		}
		return string(b)
	}
	switch class {
	case "ipv6-zoned": // link-local literal with a zone: net.ParseIP does not accept these
		zone := []string{"eth0", "en0", "2", "wlan0", "docker0", "br-" + word(4, 8)}[r.Intn(6)]
		switch r.Intn(3) {
		case 0:
			return "fe80::1%" + zone
		case 1:
			return fmt.Sprintf("fe80::%x:%xff:fe%02x:%x%%%s", r.Intn(65536), r.Intn(256), r.Intn(256), 1+r.Intn(65535), zone)
		}
		return fmt.Sprintf("fe80::%x%%%s", 1+r.Intn(65535), zone)
	case "hostname-underscore":
		switch r.Intn(3) {
		case 0:
			return fmt.Sprintf("kraken_agent_%d", r.Intn(1000))
		case 1:
			return "_" + word(2, 8) + "._tcp." + word(2, 5) + ".example.com"
		}
		return word(2, 6) + "_" + word(1, 6) + "." + word(2, 6) + ".internal"
	case "hostname-trailing-dot":
		return word(3, 8) + "." + word(2, 5) + ".example.com."
	case "hostname-upper-case":
		return strings.ToUpper(word(3, 10)) + "." + []string{"Example.COM", "DC1.CORP", "local"}[r.Intn(3)]
	case "hostname-single-label":
		return word(1, 15)
	case "hostname-numeric-label":
		switch r.Intn(3) {
		case 0:
			return fmt.Sprintf("%d", r.Intn(100000))
		case 1:
			return fmt.Sprintf("%d.%s.example.com", r.Intn(1000), word(2, 6))
		}
		return fmt.Sprintf("host-%d.%d.%d", r.Intn(100), r.Intn(256), r.Intn(256))
	default: // hostname-long-label
		return word(64, 90) + "." + word(2, 6) + ".example.com"
	}
}

func genAddr(r *rand.Rand) (addr, class string) {
	class = addrClasses[r.Intn(len(addrClasses))]
	switch class {
	case "ipv4":
		addr = genIPv4(r)
	case "ipv6-full":
		addr = genIPv6Full(r)
	case "ipv6-compressed":
		addr = genIPv6Compressed(r)
	case "ipv6-mapped":
		addr = genIPv6Mapped(r)
	case "hostname":
		addr = genHostname(r)
	default:
		addr = genUnusual(r, class)
	}
	return addr, class
}

// family folds the IPv6 spellings into one class for violation signatures: a
// signature names the failing input class, not the spelling drawn by the PRNG.
func family(class string) string {
	switch class {
	case "ipv6-full", "ipv6-compressed", "ipv6-mapped":
		return "ipv6"
	}
	return class
}

func genPort(r *rand.Rand) int {
	switch r.Intn(8) {
	case 0:
		return 0
	case 1:
		return 65535
	case 2:
		return 1 + r.Intn(9) // single digit, incl. "1"
	}
	return r.Intn(65536)
}

func genPeerID(r *rand.Rand) core.PeerID {
	var id core.PeerID
	copy(id[:], gen.Bytes(r, 20))
	return id
}

// ---- case -----------------------------------------------------------------

type announce struct {
	ID       string `json:"peer_id"`
	Addr     string `json:"addr"`
	Class    string `json:"class"`
	Port     int    `json:"port"`
	Complete bool   `json:"complete"`
	Upgrade  bool   `json:"upgrade"`            // announced incomplete first, complete later
	Alias    bool   `json:"alias,omitempty"`    // re-uses the peer id of an earlier entry with another address and/or port
	Via      int    `json:"via,omitempty"`      // store instance (tracker replica) that handles the announce
	ReadVia  int    `json:"read_via,omitempty"` // 1+instance that serves a GetPeers(big) right after this announce; 0 = none
	AtSec    int    `json:"at_sec"`             // seconds after the case's start
	id       core.PeerID
}

type caseSpec struct {
	WindowSec  int        `json:"window_sec"`
	MaxWindows int        `json:"max_windows"`
	SmallN     int        `json:"small_n"`
	Hash       string     `json:"info_hash"`
	ReadAtEnd  bool       `json:"read_at_end_of_lookback"`
	Instances  int        `json:"store_instances"` // RedisStore instances sharing the one Redis (tracker replicas)
	FinalVia   int        `json:"final_read_via"`
	SmallVia   int        `json:"small_read_via"`
	Peers      []announce `json:"peers"`
}

func genCase(r *rand.Rand) caseSpec {
	c := caseSpec{
		WindowSec:  []int{1, 10, 30, 3600}[r.Intn(4)],
		MaxWindows: 1 + r.Intn(5),
	}
	k := 1 + r.Intn(12)
	// every announce stays inside the look-back range [cur-(max-1)*win, cur]
	span := (c.MaxWindows - 1) * c.WindowSec
	for i := 0; i < k; i++ {
		addr, class := genAddr(r)
		a := announce{Addr: addr, Class: class, Port: genPort(r), Complete: r.Intn(2) == 0, id: genPeerID(r)}
		a.ID = a.id.String()
		if a.Complete && r.Intn(3) == 0 {
			a.Upgrade = true
		}
		if span > 0 {
			a.AtSec = r.Intn(span + 1)
		}
		c.Peers = append(c.Peers, a)
	}
	// In half of the batches some peer ids announce from a second address and/or
	// port (dual-stack agent, agent known by name and by address, agent on two
	// ports): the store's identity is (peer id, address, port), so both must come back.
	if r.Intn(2) == 0 {
		for n := 1 + r.Intn(3); n > 0; n-- {
			o := c.Peers[r.Intn(k)] // one of the original peers
			a := announce{Addr: o.Addr, Class: o.Class, Port: o.Port, Complete: r.Intn(2) == 0, id: o.id, ID: o.ID, Alias: true}
			switch r.Intn(3) {
			case 0: // other address, same port
				a.Addr, a.Class = genAddr(r)
			case 1: // same address, other port
				a.Port = genPort(r)
			default:
				a.Addr, a.Class = genAddr(r)
				a.Port = genPort(r)
			}
			dup := false
			for _, q := range c.Peers {
				if q.id == a.id && q.Addr == a.Addr && q.Port == a.Port {
					dup = true
				}
			}
			if dup {
				continue
			}
			if a.Complete && r.Intn(3) == 0 {
				a.Upgrade = true
			}
			switch {
			case span > 0 && r.Intn(2) == 0:
				a.AtSec = r.Intn(span + 1) // usually another window
			default:
				a.AtSec = o.AtSec // same window
			}
			c.Peers = append(c.Peers, a)
		}
	}
	sort.SliceStable(c.Peers, func(i, j int) bool { return c.Peers[i].AtSec < c.Peers[j].AtSec })
	c.SmallN = 1 + r.Intn(len(c.Peers))
	c.Hash = gen.Hex(r, 40)
	c.ReadAtEnd = r.Intn(2) == 0
	// several tracker replicas on one Redis: every announce and every read goes to a PRNG-chosen instance
	c.Instances = 1 + r.Intn(3)
	for i := range c.Peers {
		c.Peers[i].Via = r.Intn(c.Instances)
		if r.Intn(3) == 0 {
			c.Peers[i].ReadVia = 1 + r.Intn(c.Instances)
		}
	}
	c.FinalVia, c.SmallVia = r.Intn(c.Instances), r.Intn(c.Instances)
	return c
}

// fastClock is kraken's mock clock with Now/Set served from an atomic:
// clock.Mock.Set sleeps 1 ms per call to let timers run, and RedisStore only
// ever calls Now.
type fastClock struct {
	*clock.Mock
	ns atomic.Int64
}

func (c *fastClock) Now() time.Time  { return time.Unix(0, c.ns.Load()).UTC() }
func (c *fastClock) Set(t time.Time) { c.ns.Store(t.UnixNano()) }

type peerKey struct {
	id   core.PeerID
	addr string
	port int
}

func TestC28(t *testing.T) {
	run := ev.Start(t, "C28", "exploration",
		"PRNG-generated announce batches (1-12 peers per info hash; random 20-byte ids; IPv4, IPv6 full/compressed/IPv4-mapped, host names; "+
			"ports 0-65535 incl. 0, 1-9, 65535; both flags; a third of the complete peers announce incomplete first; in half of the batches 1-3 peer ids announce again from another address and/or port, in the same or another window) over window sizes 1 s-1 h and 1-5 windows, through 1-3 RedisStore instances sharing the one Redis (every announce and every read goes to a PRNG-chosen instance; a third of the announces are followed by a GetPeers(big)), plus unusual address classes (zoned IPv6, underscore / trailing-dot / upper-case / single-label / numeric / long-label host names), "+
			"announces spread across the look-back range. A case is non-trivial when GetPeers(big) returned without error and at least one peer was announced; "+
			"distinct = distinct (config, peer batch).")
	defer run.Finish()
	run.Assume("miniredis v2.5.0 implements SADD / EXPIREAT / SRANDMEMBER like Redis; its clock is pinned to the mock clock")
	run.Assume("a peer never goes from complete back to incomplete (the store documents that it collapses completion bits across windows)")

	// the store logs every entry it cannot parse; the oracle sees the loss itself
	log.SetGlobalLogger(zap.NewNop().Sugar())

	const workers = 8
	nPeers := run.N(40000, 1200000) / workers
	var wg sync.WaitGroup
	for w := 0; w < workers; w++ {
		wg.Add(1)
		go func(w int) {
			defer wg.Done()
			worker(t, run, w, nPeers)
		}(w)
	}
	wg.Wait()
}

// worker runs an independent, seed-determined case stream against its own
// miniredis and mock clock.
func worker(t *testing.T, run *ev.Run, wid, nPeers int) {
	mr, err := miniredis.Run()
	if err != nil {
		t.Errorf("miniredis: %v", err)
		return
	}
	defer mr.Close()

	r := run.Rand(fmt.Sprintf("worker-%d", wid))
	base := time.Date(2100, 1, 1, 0, 0, 0, 0, time.UTC)
	clk := &fastClock{Mock: clock.NewMock()}
	clk.Set(base)
	mr.SetTime(base)

	announced := 0
	stores := map[[3]int]*peerstore.RedisStore{}
	for ci := 0; announced < nPeers; ci++ {
		spec := genCase(r)
		caseID := fmt.Sprintf("w%d-case-%d", wid, ci)
		if rc := run.ReplayCase(); rc != "" && rc != caseID {
			announced += len(spec.Peers)
			continue
		}
		// one store per (configuration, instance); reused across cases because
		// RedisStore.Close does not release its connection pool
		inst := make([]*peerstore.RedisStore, spec.Instances)
		for i := range inst {
			cfgKey := [3]int{spec.WindowSec, spec.MaxWindows, i}
			inst[i] = stores[cfgKey]
			if inst[i] == nil {
				inst[i], err = peerstore.NewRedisStore(peerstore.RedisConfig{
					Addr:              mr.Addr(),
					PeerSetWindowSize: time.Duration(spec.WindowSec) * time.Second,
					MaxPeerSetWindows: spec.MaxWindows,
					MaxIdleConns:      1,
				}, clk)
				if err != nil {
					t.Errorf("NewRedisStore: %v", err)
					return
				}
				stores[cfgKey] = inst[i]
			}
		}
		// start each case at the beginning of a window so that the generated
		// offsets map to windows deterministically
		now := clk.Now()
		w := int64(spec.WindowSec)
		start := time.Unix((now.Unix()/w+1)*w, 0)
		mr.FastForward(start.Sub(now))
		clk.Set(start)
		mr.SetTime(start)

		h, err := core.NewInfoHashFromHex(spec.Hash)
		if err != nil {
			t.Errorf("info hash: %v", err)
			return
		}

		want := map[peerKey]announce{}
		// readBig: GetPeers(h, big) through one instance must return exactly what was announced so far
		readBig := func(via int, when string) ([]*core.PeerInfo, bool) {
			got, err := inst[via].GetPeers(h, 1000)
			if err != nil {
				run.Violation("get-peers-error", caseID, map[string]interface{}{"case": spec, "err": err.Error()})
				return nil, false
			}
			checkReturned(run, caseID, spec, want, got, "big")
			seen := map[peerKey]bool{}
			for _, p := range got {
				seen[peerKey{p.PeerID, p.IP, p.Port}] = true
			}
			for k, a := range want {
				if seen[k] {
					continue
				}
				sig := "announced-peer-not-returned/" + family(a.Class)
				shared := 0
				for k2 := range want {
					if k2.id == k.id {
						shared++
					}
				}
				if shared > 1 && family(a.Class) != "ipv6" {
					// the id announced from several addresses / ports and this one is gone
					sig = "announced-peer-not-returned/peer-id-shared-by-several-addresses"
				}
				run.Violation(sig, caseID,
					map[string]interface{}{"case": spec, "missing": a, "read": when, "read_via_instance": via, "returned": render(got)})
			}
			return got, true
		}
		updErr := false
		for _, a := range spec.Peers {
			at := start.Add(time.Duration(a.AtSec) * time.Second)
			if d := at.Sub(clk.Now()); d > 0 {
				mr.FastForward(d)
				clk.Set(at)
				mr.SetTime(at)
			}
			if a.Upgrade {
				if err := inst[a.Via].UpdatePeer(h, core.NewPeerInfo(a.id, a.Addr, a.Port, false, false)); err != nil {
					run.Violation("update-peer-error/"+family(a.Class), caseID, map[string]interface{}{"case": spec, "peer": a, "err": err.Error()})
					updErr = true
				}
			}
			if err := inst[a.Via].UpdatePeer(h, core.NewPeerInfo(a.id, a.Addr, a.Port, false, a.Complete)); err != nil {
				run.Violation("update-peer-error/"+family(a.Class), caseID, map[string]interface{}{"case": spec, "peer": a, "err": err.Error()})
				updErr = true
			}
			want[peerKey{a.id, a.Addr, a.Port}] = a
			if a.ReadVia > 0 {
				readBig(a.ReadVia-1, "after-announce")
				run.Count("intermediate_reads", 1)
				if a.ReadVia-1 != a.Via {
					run.Count("intermediate_reads_via_other_instance", 1)
				}
			}
			announced++
			run.Count("announces_"+a.Class, 1)
			if a.Alias {
				run.Count("announces_reusing_a_peer_id_with_other_address_or_port", 1)
			}
		}
		// read at the end of the look-back range: the last second in which
		// the first window is still consulted
		end := start.Add(time.Duration((spec.MaxWindows-1)*spec.WindowSec) * time.Second)
		if spec.ReadAtEnd && end.After(clk.Now()) {
			d := end.Sub(clk.Now())
			mr.FastForward(d)
			clk.Set(end)
			mr.SetTime(end)
			run.Count("reads_at_end_of_lookback", 1)
		}

		got, okRead := readBig(spec.FinalVia, "final")
		if !okRead {
			run.Case(ev.JSON(spec), false)
			continue
		}
		run.Case(ev.JSON(spec), !updErr && len(spec.Peers) > 0)
		if run.WantSample() && ci%97 == 0 {
			run.Sample(spec)
		}
		present := map[peerKey]bool{}
		for _, p := range got {
			present[peerKey{p.PeerID, p.IP, p.Port}] = true
		}
		for k, a := range want {
			if present[k] { // (the missing ones were reported by readBig)
				run.Count("roundtrips_ok_"+a.Class, 1)
			}
		}

		small, err := inst[spec.SmallVia].GetPeers(h, spec.SmallN)
		if err != nil {
			run.Violation("get-peers-error", caseID, map[string]interface{}{"case": spec, "err": err.Error()})
			continue
		}
		if len(small) > spec.SmallN {
			run.Violation("more-than-n-returned", caseID, map[string]interface{}{"case": spec, "n": spec.SmallN, "returned": render(small)})
		}
		checkReturned(run, caseID, spec, want, small, "small")
		run.Count("peers_returned", int64(len(got)+len(small)))
	}
}

// checkReturned: every returned entry must be an announced peer with identical
// fields, no entry twice.
func checkReturned(run *ev.Run, caseID string, spec caseSpec, want map[peerKey]announce, got []*core.PeerInfo, which string) {
	byID := map[core.PeerID]announce{}
	for _, a := range want {
		byID[a.id] = a
	}
	dup := map[peerKey]bool{}
	for _, p := range got {
		k := peerKey{p.PeerID, p.IP, p.Port}
		if dup[k] {
			run.Violation("peer-returned-twice", caseID, map[string]interface{}{"case": spec, "returned": render(got)})
		}
		dup[k] = true
		a, ok := want[k]
		if !ok {
			if b, ok := byID[p.PeerID]; ok {
				field := "address"
				if b.Addr == p.IP {
					field = "port"
				}
				run.Violation("field-mismatch/"+field+"/"+family(b.Class), caseID,
					map[string]interface{}{"case": spec, "announced": b, "returned": render([]*core.PeerInfo{p})})
			} else {
				run.Violation("returned-peer-never-announced", caseID,
					map[string]interface{}{"case": spec, "returned": render([]*core.PeerInfo{p})})
			}
			continue
		}
		if p.Origin {
			run.Violation("field-mismatch/origin/"+family(a.Class), caseID,
				map[string]interface{}{"case": spec, "announced": a, "returned": render([]*core.PeerInfo{p})})
		}
		// With a small n the sample may contain only the older (incomplete)
		// member of an upgraded peer: the store documents that limitation, and
		// the statement is about what a peer announced, so only flag a flag
		// the peer never announced.
		if p.Complete != a.Complete && !(which == "small" && a.Upgrade) {
			run.Violation("field-mismatch/complete/"+family(a.Class), caseID,
				map[string]interface{}{"case": spec, "announced": a, "returned": render([]*core.PeerInfo{p}), "read": which})
		}
	}
}

func render(ps []*core.PeerInfo) []string {
	out := make([]string, 0, len(ps))
	for _, p := range ps {
		out = append(out, fmt.Sprintf("%s|%s|%d|origin=%v|complete=%v", p.PeerID, p.IP, p.Port, p.Origin, p.Complete))
	}
	sort.Strings(out)
	return out
}
