//go:build verif

// C29: request deduplication runs at most one execution per key.
//
// Real dedup.RequestCache, dedup.Limiter and dedup.IntervalTrap on kraken's
// mock clock. Request bodies / task runners are instrumented: they count the
// executions in flight per key at entry (so overlap is observed, not inferred
// from timing) and block on a gate owned by the controller.
//
//	A  RequestCache, scripted: one controlling goroutine issues Start / finish
//	   (nil, error, not-found error) / clock advances around the TTLs / Starts
//	   with no free worker (released by a finishing body or by the busy timeout)
//	   and compares every Start result with a sequential model.
//	B  Limiter, scripted: callers are parked at the verifhook point between the
//	   task lookup and getOutput while other callers, clock advances (> GC
//	   interval) and completions run.
//	C  IntervalTrap: barrier-released goroutines trap concurrently, clock
//	   advanced between rounds.
//	D  free-running stress of RequestCache and Limiter under -race.
package c29

import (
	"fmt"
	"math/rand"
	"runtime"
	"sort"
	"strings"
	"sync"
	"sync/atomic"
	"testing"
	"time"

	"github.com/andres-erbsen/clock"
	"github.com/uber-go/tally"

	"github.com/uber/kraken/utils/dedup"
	"github.com/uber/kraken/utils/verifhook"

	"verif/harness/internal/ev"
	"verif/harness/internal/sched"
)

const (
	watchdog      = 60 * time.Second
	ptBeforeGet   = "dedup.limiter.before_getoutput"
	sec           = time.Second
	gcInterval    = dedup.TaskGCInterval
	ctxGCHeld     = "gc-ran-while-a-parked-caller-held-the-idle-task"
	ctxNoGC       = "no-gc-involved"
	ctxFreeRun    = "free-running"
	sigLimOverlap = "limiter-concurrent-executions-for-one-input"
)

var (
	stampCtr atomic.Int64
	hub      = sched.NewHub(func() int64 { return stampCtr.Add(1) })
	sidSeq   atomic.Int64
)

func init() { verifhook.Set(hub.Handle) }

type inconclusive struct{ reason string }

func waitFor(what string, cond func() bool) {
	deadline := time.Now().Add(watchdog)
	for i := 0; !cond(); i++ {
		if time.Now().After(deadline) {
			panic(inconclusive{"watchdog: " + what})
		}
		if i < 100 {
			runtime.Gosched()
		} else {
			time.Sleep(50 * time.Microsecond)
		}
	}
}

// countClock counts After calls: a Start that found no free worker is known to
// have reached its select once the count moved.
type countClock struct {
	*clock.Mock
	afters atomic.Int64
}

func (c *countClock) After(d time.Duration) <-chan time.Time {
	ch := c.Mock.After(d)
	c.afters.Add(1)
	return ch
}

// gauge scope: RequestCache publishes len(numWorkers) through the
// "num_requests" gauge after every acquire / release of a worker slot.
type sigGauge struct {
	mu  sync.Mutex
	val float64
}

func (g *sigGauge) Update(v float64) { g.mu.Lock(); g.val = v; g.mu.Unlock() }
func (g *sigGauge) get() float64     { g.mu.Lock(); defer g.mu.Unlock(); return g.val }

type gaugeScope struct {
	tally.Scope
	g *sigGauge
}

func (s *gaugeScope) Tagged(map[string]string) tally.Scope { return s }
func (s *gaugeScope) Gauge(name string) tally.Gauge {
	if name == "num_requests" {
		return s.g
	}
	return s.Scope.Gauge(name)
}

type idErr struct {
	id int
	nf bool
}

func (e *idErr) Error() string { return fmt.Sprintf("body-error-%d(notfound=%v)", e.id, e.nf) }

// ---------------------------------------------------------------------------
// A. RequestCache, scripted
// ---------------------------------------------------------------------------

type rcExec struct {
	key  string
	gate chan error
	n    int32 // executions of key in flight when this one entered
}

type rcBlocked struct {
	key      string
	deadline time.Duration
	done     chan error
}

type rcCached struct {
	err error
	exp time.Duration
}

type rcAction struct {
	Op  string `json:"op"`            // start | finish | advance
	Key string `json:"key,omitempty"` // start / finish
	Out string `json:"out,omitempty"` // finish: ok | err | notfound
	D   string `json:"d,omitempty"`   // advance
}

type rcCase struct {
	Workers         int        `json:"workers"`
	ErrorTTL        string     `json:"error_ttl"`
	NotFoundTTL     string     `json:"notfound_ttl"`
	CleanupInterval string     `json:"cleanup_interval"`
	BusyTimeout     string     `json:"busy_timeout"`
	Actions         []rcAction `json:"actions"`
}

type rcRun struct {
	cfg     dedup.RequestCacheConfig
	clk     *countClock
	rc      *dedup.RequestCache
	g       *sigGauge
	now     time.Duration
	pending map[string]string
	errs    map[string]rcCached
	busy    int
	running map[string]*rcExec
	blocked []*rcBlocked
	events  chan *rcExec
	abort   chan struct{}
	infl    sync.Map // key -> *atomic.Int32
	errSeq  int
	execs   int
	accept  int
	trace   []string
	viol    []rcViol
	flags   map[string]bool // what the schedule exercised
}

type rcViol struct {
	Sig    string
	Detail string
}

func (r *rcRun) inflight(k string) *atomic.Int32 {
	v, _ := r.infl.LoadOrStore(k, new(atomic.Int32))
	return v.(*atomic.Int32)
}

func (r *rcRun) body(k string) (dedup.Request, *rcExec) {
	e := &rcExec{key: k, gate: make(chan error, 1)}
	return func() error {
		e.n = r.inflight(k).Add(1)
		select {
		case r.events <- e:
		case <-r.abort:
		}
		var err error
		select {
		case err = <-e.gate:
		case <-r.abort:
		}
		r.inflight(k).Add(-1)
		return err
	}, e
}

func (r *rcRun) fail(sig, detail string) {
	r.viol = append(r.viol, rcViol{sig, detail})
}

func (r *rcRun) logf(f string, a ...interface{}) { r.trace = append(r.trace, fmt.Sprintf(f, a...)) }

// entered waits for the next body entry and judges the in-flight count.
func (r *rcRun) entered(wantKey string) *rcExec {
	var e *rcExec
	t := time.NewTimer(watchdog)
	defer t.Stop()
	select {
	case e = <-r.events:
	case <-t.C:
		panic(inconclusive{"watchdog: body of " + wantKey + " did not start"})
	}
	r.execs++
	if e.n > 1 {
		r.fail("requestcache-concurrent-executions-for-one-key", fmt.Sprintf("key %s: %d executions in flight", e.key, e.n))
	}
	if old := r.running[e.key]; old != nil && old != e {
		// second execution of the key while the first is still running: keep
		// both so that the clean-up can finish them
		r.running[e.key+"#dup"+fmt.Sprint(r.execs)] = e
	} else {
		r.running[e.key] = e
	}
	return e
}

func (r *rcRun) waitDone(done chan error, what string) error {
	t := time.NewTimer(watchdog)
	defer t.Stop()
	select {
	case err := <-done:
		return err
	case <-t.C:
		panic(inconclusive{"watchdog: " + what})
	}
}

func (r *rcRun) start(k string) {
	fn, _ := r.body(k)
	done := make(chan error, 1)
	before := r.clk.afters.Load()
	go func() { done <- r.rc.Start(k, fn) }()
	switch {
	case r.pending[k] != "":
		r.flags["start-while-"+r.pending[k]] = true
		// reserveWorker (the After call) is only reached after the pending /
		// cached-error check let the Start through
		waitFor("Start during pending neither returned nor went on", func() bool { return len(done) > 0 || r.clk.afters.Load() > before })
		if r.clk.afters.Load() > before {
			r.logf("start(%s) while %s -> accepted", k, r.pending[k])
			r.fail("requestcache-start-during-pending-ran-again", fmt.Sprintf("Start(%s) was accepted (reserved the key again) while an execution/reservation of %s was pending", k, k))
			return
		}
		err := r.waitDone(done, "Start during pending did not return")
		r.logf("start(%s) while %s -> %v", k, r.pending[k], err)
		if err != dedup.ErrRequestPending {
			r.fail("requestcache-start-during-pending-wrong-result", fmt.Sprintf("Start(%s) = %v, want ErrRequestPending", k, err))
		}
		return
	}
	if ce, ok := r.errs[k]; ok && r.now < ce.exp {
		r.flags["start-while-error-cached"] = true
		waitFor("Start with cached error neither returned nor went on", func() bool { return len(done) > 0 || r.clk.afters.Load() > before })
		if r.clk.afters.Load() > before {
			r.logf("start(%s) with cached error until %v -> accepted", k, ce.exp)
			r.fail("requestcache-cached-error-ignored", fmt.Sprintf("Start(%s) was accepted although error %v is cached until %v (now %v)", k, ce.err, ce.exp, r.now))
			return
		}
		err := r.waitDone(done, "Start with cached error did not return")
		r.logf("start(%s) with cached error until %v -> %v", k, ce.exp, err)
		if err != ce.err {
			r.fail("requestcache-wrong-cached-error", fmt.Sprintf("Start(%s) = %v, want cached %v", k, err, ce.err))
		}
		return
	}
	if _, ok := r.errs[k]; ok {
		r.flags["start-after-error-expired"] = true
		delete(r.errs, k)
	}
	if r.busy < r.cfg.NumWorkers {
		err := r.waitDone(done, "Start with a free worker did not return")
		r.logf("start(%s) -> %v", k, err)
		if err != nil {
			sig := "requestcache-start-refused-without-reason"
			if err == dedup.ErrRequestPending {
				sig = "requestcache-stale-pending-mark"
			} else if _, ok := err.(*idErr); ok {
				sig = "requestcache-expired-error-still-served"
			}
			r.fail(sig, fmt.Sprintf("Start(%s) = %v although nothing is pending or cached for it and a worker is free (now %v)", k, err, r.now))
			return
		}
		r.accept++
		r.entered(k)
		r.busy++
		r.pending[k] = "running"
		return
	}
	// no free worker: the Start reserves the key and parks in reserveWorker
	r.flags["start-without-free-worker"] = true
	waitFor("Start without a free worker did not reach its select", func() bool {
		return r.clk.afters.Load() > before || len(done) > 0
	})
	select {
	case err := <-done:
		r.logf("start(%s) without free worker returned at once: %v", k, err)
		if err == nil { // ran anyway; not part of the statement, follow it
			r.accept++
			r.entered(k)
			r.busy++
			r.pending[k] = "running"
			return
		}
		if err == dedup.ErrRequestPending {
			r.fail("requestcache-stale-pending-mark", fmt.Sprintf("Start(%s) = ErrRequestPending although nothing is pending", k))
		}
		return
	default:
	}
	r.logf("start(%s) parked: no free worker", k)
	r.blocked = append(r.blocked, &rcBlocked{key: k, deadline: r.now + r.cfg.BusyTimeout, done: done})
	r.pending[k] = "blocked"
}

func (r *rcRun) finish(k, outcome string) {
	e := r.running[k]
	if e == nil {
		return
	}
	var err error
	switch outcome {
	case "err":
		r.errSeq++
		err = &idErr{id: r.errSeq}
	case "notfound":
		r.errSeq++
		err = &idErr{id: r.errSeq, nf: true}
	}
	delete(r.running, k)
	e.gate <- err
	r.logf("finish(%s) -> %v", k, err)
	key := e.key
	delete(r.pending, key)
	if err != nil {
		ttl := r.cfg.ErrorTTL
		if outcome == "notfound" {
			ttl = r.cfg.NotFoundTTL
		}
		r.errs[key] = rcCached{err: err, exp: r.now + ttl}
	}
	if len(r.blocked) > 0 {
		// the freed worker goes to one of the parked Starts
		var got *rcBlocked
		var res error
		waitFor("no parked Start took the freed worker", func() bool {
			for _, b := range r.blocked {
				select {
				case res = <-b.done:
					got = b
					return true
				default:
				}
			}
			return false
		})
		for i, b := range r.blocked {
			if b == got {
				r.blocked = append(r.blocked[:i], r.blocked[i+1:]...)
			}
		}
		r.logf("parked start(%s) -> %v", got.key, res)
		if res != nil {
			delete(r.pending, got.key)
			r.busy--
			if res != dedup.ErrWorkersBusy {
				r.fail("requestcache-parked-start-wrong-result", fmt.Sprintf("parked Start(%s) = %v", got.key, res))
			}
			return
		}
		r.flags["parked-start-got-freed-worker"] = true
		r.accept++
		r.entered(got.key)
		r.pending[got.key] = "running"
		return
	}
	r.busy--
	want := float64(r.busy)
	waitFor("worker slot was not released after the body returned", func() bool { return r.g.get() == want })
}

func (r *rcRun) advance(d time.Duration) {
	// never land exactly on a deadline
	for again := true; again; {
		again = false
		t := r.now + d
		for _, ce := range r.errs {
			if ce.exp == t {
				again = true
			}
		}
		for _, b := range r.blocked {
			if b.deadline == t {
				again = true
			}
		}
		if again {
			d += sec
		}
	}
	r.clk.Add(d)
	r.now += d
	r.logf("advance(%v) -> now %v", d, r.now)
	var keep []*rcBlocked
	for _, b := range r.blocked {
		if b.deadline > r.now {
			keep = append(keep, b)
			continue
		}
		r.flags["busy-timeout-fired"] = true
		err := r.waitDone(b.done, "parked Start did not return after its busy timeout")
		r.logf("parked start(%s) after busy timeout -> %v", b.key, err)
		delete(r.pending, b.key)
		if err == nil {
			r.accept++
			r.entered(b.key)
			r.busy++
			r.pending[b.key] = "running"
			r.fail("requestcache-parked-start-ran-after-timeout", fmt.Sprintf("Start(%s) ran although no worker was free", b.key))
		} else if err != dedup.ErrWorkersBusy {
			r.fail("requestcache-parked-start-wrong-result", fmt.Sprintf("parked Start(%s) = %v, want ErrWorkersBusy", b.key, err))
		}
	}
	r.blocked = keep
}

func dur(s string) time.Duration {
	d, err := time.ParseDuration(s)
	if err != nil {
		panic(err)
	}
	return d
}

func genRCCase(rnd *rand.Rand) rcCase {
	ttls := []string{"5s", "15s", "40s"}
	c := rcCase{
		Workers:         1 + rnd.Intn(2),
		ErrorTTL:        ttls[rnd.Intn(3)],
		NotFoundTTL:     ttls[rnd.Intn(3)],
		CleanupInterval: []string{"1s", "5s", "90s"}[rnd.Intn(3)],
		BusyTimeout:     []string{"3s", "5s"}[rnd.Intn(2)],
	}
	keys := []string{"a", "b", "c"}[:1+rnd.Intn(3)]
	n := 8 + rnd.Intn(14)
	ds := []string{"1s", "2s", c.ErrorTTL, c.NotFoundTTL, c.BusyTimeout, c.CleanupInterval, "4s", "14s", "39s", "6s", "16s", "41s"}
	for i := 0; i < n; i++ {
		switch x := rnd.Intn(10); {
		case x < 5:
			c.Actions = append(c.Actions, rcAction{Op: "start", Key: keys[rnd.Intn(len(keys))]})
		case x < 8:
			c.Actions = append(c.Actions, rcAction{Op: "finish", Key: keys[rnd.Intn(len(keys))], Out: []string{"ok", "err", "err", "notfound"}[rnd.Intn(4)]})
		default:
			c.Actions = append(c.Actions, rcAction{Op: "advance", D: ds[rnd.Intn(len(ds))]})
		}
	}
	return c
}

func runRCCase(c rcCase) (r *rcRun, inc string) {
	clk := &countClock{Mock: clock.NewMock()}
	g := &sigGauge{}
	cfg := dedup.RequestCacheConfig{
		NotFoundTTL: dur(c.NotFoundTTL), ErrorTTL: dur(c.ErrorTTL), CleanupInterval: dur(c.CleanupInterval),
		NumWorkers: c.Workers, BusyTimeout: dur(c.BusyTimeout),
	}
	r = &rcRun{cfg: cfg, clk: clk, g: g, pending: map[string]string{}, errs: map[string]rcCached{},
		running: map[string]*rcExec{}, events: make(chan *rcExec, 64), abort: make(chan struct{}), flags: map[string]bool{}}
	r.rc = dedup.NewRequestCache(cfg, clk, &gaugeScope{Scope: tally.NoopScope, g: g})
	r.rc.SetNotFound(func(err error) bool {
		e, ok := err.(*idErr)
		return ok && e.nf
	})
	defer func() {
		if p := recover(); p != nil {
			if i, ok := p.(inconclusive); ok {
				inc = i.reason
			} else {
				panic(p)
			}
		}
		// release whatever is still held so that no goroutine is left behind
		close(r.abort)
		r.clk.Add(time.Hour)
	}()
	for _, a := range c.Actions {
		if len(r.viol) > 0 {
			break
		}
		switch a.Op {
		case "start":
			r.start(a.Key)
		case "finish":
			r.finish(a.Key, a.Out)
		case "advance":
			r.advance(dur(a.D))
		}
	}
	if len(r.viol) > 0 {
		return r, ""
	}
	// wind down: finish every body (parked Starts take over freed workers and
	// are finished as well); then every accepted Start must have run once.
	for guard := 0; len(r.running) > 0 && guard < 100; guard++ {
		var ks []string
		for k := range r.running {
			ks = append(ks, k)
		}
		sort.Strings(ks)
		r.finish(ks[0], "ok")
	}
	if len(r.blocked) > 0 {
		r.advance(r.cfg.BusyTimeout + sec)
	}
	if len(r.viol) == 0 && r.execs != r.accept {
		r.fail("requestcache-accepted-starts-differ-from-executions", fmt.Sprintf("%d Starts returned nil, %d bodies ran", r.accept, r.execs))
	}
	return r, ""
}

// ---------------------------------------------------------------------------
// B. Limiter, scripted
// ---------------------------------------------------------------------------

type limRes struct {
	out int
	ttl time.Duration
}

type limExec struct {
	input string
	n     int32
	gate  chan limRes
	start time.Duration // mock time at entry
}

type limRunner struct {
	infl   sync.Map
	events chan *limExec
	abort  chan struct{}
	now    func() time.Duration
}

func (lr *limRunner) inflight(k string) *atomic.Int32 {
	v, _ := lr.infl.LoadOrStore(k, new(atomic.Int32))
	return v.(*atomic.Int32)
}

func (lr *limRunner) Run(input interface{}) (interface{}, time.Duration) {
	k := input.(string)
	e := &limExec{input: k, gate: make(chan limRes, 1)}
	e.n = lr.inflight(k).Add(1)
	e.start = lr.now()
	select {
	case lr.events <- e:
	case <-lr.abort:
	}
	var res limRes
	select {
	case res = <-e.gate:
	case <-lr.abort:
	}
	lr.inflight(k).Add(-1)
	return res.out, res.ttl
}

type limAction struct {
	Op    string `json:"op"` // call | release | finish | advance
	Input string `json:"input,omitempty"`
	Who   int    `json:"who,omitempty"` // release: index among the parked callers (mod count)
	TTL   string `json:"ttl,omitempty"`
	D     string `json:"d,omitempty"`
}

type limCase struct {
	Actions []limAction `json:"actions"`
}

// curGID returns the id of the calling goroutine (from its stack header).
func curGID() int64 {
	var b [64]byte
	n := runtime.Stack(b[:], false)
	var id int64
	fmt.Sscanf(string(b[:n]), "goroutine %d ", &id)
	return id
}

var stackBufs = sync.Pool{New: func() interface{} { b := make([]byte, 4<<20); return &b }}

// blockedInCondWait reports whether goroutine gid is parked in sync.Cond.Wait
// (the only way to know that a released caller really joined the waiters of the
// execution in flight before that execution is allowed to finish).
func blockedInCondWait(gid int64) bool {
	bp := stackBufs.Get().(*[]byte)
	defer stackBufs.Put(bp)
	n := runtime.Stack(*bp, true)
	hdr := fmt.Sprintf("goroutine %d [", gid)
	i := strings.Index(string((*bp)[:n]), hdr)
	if i < 0 {
		return false
	}
	rest := string((*bp)[i+len(hdr) : min(n, i+len(hdr)+40)])
	return strings.HasPrefix(rest, "sync.Cond.Wait")
}

type limCaller struct {
	gid    atomic.Int64
	id     int
	input  string
	arr    *sched.Arrival
	done   chan interface{}
	state  string // parked | waiting | running | returned
	expect int    // output it must return (0 = unknown yet)
	exec   *limExec
}

type limTask struct {
	running    bool
	ran        bool
	finishedAt time.Duration
	exp        time.Duration
	out        int
	exec       *limExec
}

type limRun struct {
	sid      string
	sess     *sched.Session
	clk      *clock.Mock
	lim      *dedup.Limiter
	runner   *limRunner
	now      time.Duration
	nowA     atomic.Int64
	trapPrev time.Duration
	tasks    map[string]*limTask
	callers  []*limCaller
	outSeq   int
	trace    []string
	viol     []rcViol
	anomaly  map[string]int // observations outside the property statement (counted, not judged)
	gcHeld   map[string]bool
	flags    map[string]bool
	execs    int
}

func (l *limRun) logf(f string, a ...interface{}) { l.trace = append(l.trace, fmt.Sprintf(f, a...)) }

func (l *limRun) ctx(input string) string {
	if l.gcHeld[input] {
		return ctxGCHeld
	}
	return ctxNoGC
}

func (l *limRun) fail(sig, input, detail string) {
	l.viol = append(l.viol, rcViol{sig + "/" + l.ctx(input), detail})
}

func (l *limRun) task(in string) *limTask {
	t := l.tasks[in]
	if t == nil {
		t = &limTask{}
		l.tasks[in] = t
	}
	return t
}

func (l *limRun) parked() []*limCaller {
	var p []*limCaller
	for _, c := range l.callers {
		if c.state == "parked" {
			p = append(p, c)
		}
	}
	return p
}

// entered waits for a runner entry and judges it.
func (l *limRun) entered(who string) *limExec {
	t := time.NewTimer(watchdog)
	defer t.Stop()
	select {
	case e := <-l.runner.events:
		l.judgeEntry(e)
		return e
	case <-t.C:
		panic(inconclusive{"watchdog: runner was not entered (" + who + ")"})
	}
}

func (l *limRun) judgeEntry(e *limExec) {
	l.execs++
	name := strings.TrimPrefix(e.input, l.sid+".")
	t := l.task(name)
	if e.n > 1 {
		l.fail(sigLimOverlap, name, fmt.Sprintf("input %s: %d executions in flight", name, e.n))
	} else if t.ran && !t.running && l.now < t.exp {
		// not part of the statement (which bounds executions in flight): counted only
		l.anomaly["executed-again-within-ttl/"+l.ctx(name)]++
	}
}

func (l *limRun) call(in string) {
	// Run() traps into the GC first
	if l.now > l.trapPrev+gcInterval {
		l.trapPrev = l.now
		l.flags["gc-pass"] = true
		for _, c := range l.parked() {
			t := l.task(c.input)
			if !t.running && (!t.ran || l.now > t.exp) {
				l.gcHeld[c.input] = true
				l.flags["gc-pass-while-idle-task-held"] = true
			}
		}
	}
	c := &limCaller{id: len(l.callers), input: in, done: make(chan interface{}, 1), state: "parked"}
	l.callers = append(l.callers, c)
	key := l.sid + "." + in
	go func() { c.gid.Store(curGID()); c.done <- l.lim.Run(key) }()
	a, ok := l.sess.Next(watchdog)
	if !ok {
		panic(inconclusive{"watchdog: caller did not reach the yield point"})
	}
	c.arr = a
	l.logf("call#%d(%s) parked holding its task", c.id, in)
}

func (l *limRun) waitReturn(c *limCaller, what string) int {
	t := time.NewTimer(watchdog)
	defer t.Stop()
	for {
		select {
		case v := <-c.done:
			c.state = "returned"
			out, _ := v.(int)
			return out
		case e := <-l.runner.events:
			// an execution nobody predicted: judge it, let it end at once
			l.judgeEntry(e)
			l.outSeq++
			e.gate <- limRes{out: l.outSeq}
			l.anomaly["execution-not-predicted-by-model"]++
		case <-t.C:
			panic(inconclusive{"watchdog: " + what})
		}
	}
}

func (l *limRun) release(who int) {
	p := l.parked()
	if len(p) == 0 {
		return
	}
	c := p[who%len(p)]
	t := l.task(c.input)
	switch {
	case t.running:
		l.flags["release-while-running"] = true
		c.state = "waiting"
		c.arr.Release()
		// go on only when the caller really waits on the execution in flight (or did
		// something else that is observable)
		waitFor(fmt.Sprintf("caller #%d (%s) neither joined the waiters nor ran nor returned", c.id, c.input), func() bool {
			return len(l.runner.events) > 0 || len(c.done) > 0 || blockedInCondWait(c.gid.Load())
		})
		switch {
		case len(l.runner.events) > 0:
			e := <-l.runner.events
			l.judgeEntry(e) // a second execution while one is in flight
			l.anomaly["execution-not-predicted-by-model"]++
			l.outSeq++
			e.gate <- limRes{out: l.outSeq}
			l.logf("release#%d(%s): execution in flight, but the runner was entered again (in flight %d)", c.id, c.input, e.n)
		case len(c.done) > 0:
			l.anomaly["returned-while-execution-in-flight"]++
			c.state = "returned"
			<-c.done
			l.logf("release#%d(%s): execution in flight, caller returned at once", c.id, c.input)
		default:
			l.logf("release#%d(%s): execution in flight, waits", c.id, c.input)
		}
	case t.ran && l.now < t.exp:
		l.flags["release-within-ttl"] = true
		c.arr.Release()
		out := l.waitReturn(c, fmt.Sprintf("caller #%d (%s) within ttl did not return", c.id, c.input))
		l.logf("release#%d(%s): within ttl -> %d", c.id, c.input, out)
		if out != t.out {
			l.anomaly["cached-output-differs"]++
		}
	case t.ran && l.now == t.exp:
		// the runner returned ttl 0 and the clock has not moved: whether "now" still
		// counts as within the ttl is not part of the statement; accept both
		l.flags["release-at-zero-ttl"] = true
		c.arr.Release()
		tm := time.NewTimer(watchdog)
		defer tm.Stop()
		select {
		case v := <-c.done:
			c.state = "returned"
			out, _ := v.(int)
			l.logf("release#%d(%s): ttl 0, clock unmoved -> cached %d", c.id, c.input, out)
		case e := <-l.runner.events:
			l.judgeEntry(e)
			c.state, c.exec = "running", e
			t.running, t.exec = true, e
			l.logf("release#%d(%s): ttl 0, clock unmoved -> runs (in flight %d)", c.id, c.input, e.n)
		case <-tm.C:
			panic(inconclusive{fmt.Sprintf("watchdog: caller #%d (%s) neither returned nor ran", c.id, c.input)})
		}
	default:
		if t.ran {
			l.flags["release-after-ttl-expired"] = true
			if t.exp <= t.finishedAt {
				l.flags["release-after-non-positive-ttl"] = true
			}
		}
		c.arr.Release()
		e := l.entered(fmt.Sprintf("caller #%d (%s)", c.id, c.input))
		c.state = "running"
		c.exec = e
		t.running, t.exec = true, e
		l.logf("release#%d(%s): runs (in flight %d)", c.id, c.input, e.n)
	}
}

func (l *limRun) finish(in string, ttl time.Duration) {
	t := l.task(in)
	if !t.running {
		return
	}
	l.outSeq++
	out := l.outSeq
	t.exec.gate <- limRes{out: out, ttl: ttl}
	t.running, t.ran, t.out, t.exp, t.finishedAt = false, true, out, l.now+ttl, l.now
	l.logf("finish(%s) -> output %d ttl %v", in, out, ttl)
	for _, c := range l.callers {
		if c.input != in || (c.state != "running" && c.state != "waiting") {
			continue
		}
		if c.state == "waiting" {
			l.flags["waiter-served-by-one-execution"] = true
		}
		got := l.waitReturn(c, fmt.Sprintf("caller #%d (%s) did not return after the execution finished", c.id, in))
		if got != out {
			l.anomaly["waiter-got-other-output"]++
		}
	}
}

func (l *limRun) advance(d time.Duration) {
	for again := true; again; {
		again = false
		t := l.now + d
		if t == l.trapPrev+gcInterval {
			again = true
		}
		for _, tk := range l.tasks {
			if tk.ran && tk.exp == t {
				again = true
			}
		}
		if again {
			d += sec
		}
	}
	l.clk.Add(d)
	l.now += d
	l.nowA.Store(int64(l.now))
	l.logf("advance(%v) -> now %v", d, l.now)
}

func genLimCase(rnd *rand.Rand) limCase {
	ins := []string{"x", "y"}[:1+rnd.Intn(2)]
	var c limCase
	n := 8 + rnd.Intn(12)
	for i := 0; i < n; i++ {
		switch x := rnd.Intn(20); {
		case x < 7:
			c.Actions = append(c.Actions, limAction{Op: "call", Input: ins[rnd.Intn(len(ins))]})
		case x < 12:
			c.Actions = append(c.Actions, limAction{Op: "release", Who: rnd.Intn(8)})
		case x < 16:
			c.Actions = append(c.Actions, limAction{Op: "finish", Input: ins[rnd.Intn(len(ins))], TTL: []string{"-1s", "-1s", "0s", "1ms", "1s", "10s", "2m", "5m"}[rnd.Intn(8)]})
		default:
			c.Actions = append(c.Actions, limAction{Op: "advance", D: []string{"1s", "9s", "11s", "61s", "61s", "3m", "6m"}[rnd.Intn(7)]})
		}
	}
	return c
}

func runLimCase(c limCase) (l *limRun, inc string) {
	l = &limRun{sid: "l" + fmt.Sprint(sidSeq.Add(1)), clk: clock.NewMock(), tasks: map[string]*limTask{},
		gcHeld: map[string]bool{}, flags: map[string]bool{}, anomaly: map[string]int{}}
	l.runner = &limRunner{events: make(chan *limExec, 64), abort: make(chan struct{}),
		now: func() time.Duration { return time.Duration(l.nowA.Load()) }}
	l.sess = hub.NewSession(l.sid, func(name, key string) sched.Action { return sched.Park })
	l.lim = dedup.NewLimiter(l.clk, l.runner)
	defer func() {
		if p := recover(); p != nil {
			if i, ok := p.(inconclusive); ok {
				inc = i.reason + " observed so far: " + strings.Join(l.trace, " | ")
			} else {
				panic(p)
			}
		}
		close(l.runner.abort)
		l.sess.Close()
	}()
	for _, a := range c.Actions {
		if len(l.viol) > 0 {
			break
		}
		switch a.Op {
		case "call":
			l.call(a.Input)
		case "release":
			l.release(a.Who)
		case "finish":
			l.finish(a.Input, dur(a.TTL))
		case "advance":
			l.advance(dur(a.D))
		}
	}
	// wind down: everybody is released, every execution finished
	for guard := 0; len(l.viol) == 0 && guard < 200; guard++ {
		if p := l.parked(); len(p) > 0 {
			l.release(0)
			continue
		}
		progressed := false
		for in, t := range l.tasks {
			if t.running {
				l.finish(in, time.Hour)
				progressed = true
				break
			}
		}
		if !progressed {
			break
		}
	}
	return l, ""
}

// ---------------------------------------------------------------------------
// C. IntervalTrap
// ---------------------------------------------------------------------------

type trapTask struct {
	clk   *clock.Mock
	infl  atomic.Int32
	over  atomic.Int32
	mu    sync.Mutex
	times []time.Time
}

func (t *trapTask) Run() {
	if t.infl.Add(1) > 1 {
		t.over.Add(1)
	}
	t.mu.Lock()
	t.times = append(t.times, t.clk.Now())
	t.mu.Unlock()
	runtime.Gosched()
	t.infl.Add(-1)
}

// trapRounds: in every round the clock is advanced (past the interval or not),
// then n goroutines released by a barrier call Trap() at the same time.
func trapRounds(rnd *rand.Rand, rounds, n int) (runs int, due int, viol []rcViol, sig string) {
	clk := clock.NewMock()
	interval := time.Duration(2+rnd.Intn(9)) * sec
	task := &trapTask{clk: clk}
	trap := dedup.NewIntervalTrap(interval, clk, task)
	var order []string
	last := time.Duration(0) // mock time of the last run (trap starts with prev = now = 0)
	now := time.Duration(0)
	for r := 0; r < rounds; r++ {
		d := interval + sec
		if rnd.Intn(3) == 0 {
			d = interval - sec
		}
		if now+d-last == interval { // never exactly on the boundary
			d += sec
		}
		clk.Add(d)
		now += d
		isDue := now-last > interval
		before := func() int { task.mu.Lock(); defer task.mu.Unlock(); return len(task.times) }()
		// spin barrier: all n goroutines are running on their own P when the
		// flag flips, so they reach the read-locked ready() check together
		var wg sync.WaitGroup
		var spinning atomic.Int32
		var goFlag atomic.Bool
		for i := 0; i < n; i++ {
			wg.Add(1)
			go func() {
				defer wg.Done()
				spinning.Add(1)
				for j := 0; !goFlag.Load(); j++ {
					if j > 2000 { // do not burn a P on an overloaded machine
						runtime.Gosched()
					}
				}
				trap.Trap()
			}()
		}
		for j := 0; spinning.Load() < int32(n) && j < 1<<16; j++ {
			runtime.Gosched()
		}
		goFlag.Store(true)
		wg.Wait()
		after := func() int { task.mu.Lock(); defer task.mu.Unlock(); return len(task.times) }()
		got := after - before
		runs += got
		if isDue {
			due++
		}
		switch {
		case got > 1:
			viol = append(viol, rcViol{"intervaltrap-task-ran-more-than-once-per-interval", fmt.Sprintf("round %d: %d runs at mock time %v, interval %v, previous run at %v", r, got, now, interval, last)})
		case got == 1 && !isDue:
			viol = append(viol, rcViol{"intervaltrap-task-ran-before-interval-elapsed", fmt.Sprintf("round %d: run at %v, previous at %v, interval %v", r, now, last, interval)})
		}
		if got >= 1 {
			last = now
		}
		order = append(order, fmt.Sprintf("%v:%d", isDue, got))
		if len(viol) > 0 {
			break
		}
	}
	if task.over.Load() > 0 {
		viol = append(viol, rcViol{"intervaltrap-concurrent-task-executions", fmt.Sprintf("%d overlapping runs", task.over.Load())})
	}
	return runs, due, viol, sched.HashOrder(order)
}

// ---------------------------------------------------------------------------
// D. free-running stress
// ---------------------------------------------------------------------------

func stressRC(rnd *rand.Rand, goroutines, perG int) (starts, execs int64, viol []rcViol, outcome map[string]int64) {
	clk := clock.NewMock()
	rc := dedup.NewRequestCache(dedup.RequestCacheConfig{
		NotFoundTTL: 3 * sec, ErrorTTL: sec, CleanupInterval: sec, NumWorkers: 2, BusyTimeout: sec,
	}, clk, tally.NoopScope)
	keys := []string{"a", "b", "c", "d", "e", "f"}
	infl := map[string]*atomic.Int32{}
	for _, k := range keys {
		infl[k] = new(atomic.Int32)
	}
	var over, nexec, accepted, pend, busy, cached atomic.Int64
	var emu sync.Mutex
	produced := map[error]bool{}
	var bad []string
	var bodies sync.WaitGroup
	stop := make(chan struct{})
	var clkDone sync.WaitGroup
	clkDone.Add(1)
	go func() { // the only goroutine that moves the mock clock
		defer clkDone.Done()
		for {
			select {
			case <-stop:
				return
			default:
				clk.Add(700 * time.Millisecond)
			}
		}
	}()
	var wg sync.WaitGroup
	for g := 0; g < goroutines; g++ {
		wg.Add(1)
		seed := rnd.Int63()
		go func() {
			defer wg.Done()
			r := rand.New(rand.NewSource(seed))
			for i := 0; i < perG; i++ {
				k := keys[r.Intn(len(keys))]
				fail := r.Intn(30) == 0
				spin := r.Intn(3)
				bodies.Add(1)
				err := rc.Start(k, func() error {
					defer bodies.Done()
					if infl[k].Add(1) > 1 {
						over.Add(1)
					}
					nexec.Add(1)
					for j := 0; j < spin; j++ {
						runtime.Gosched()
					}
					var e error
					if fail {
						e = &idErr{id: int(nexec.Load())}
						emu.Lock()
						produced[e] = true
						emu.Unlock()
					}
					infl[k].Add(-1)
					return e
				})
				switch {
				case err == nil:
					accepted.Add(1)
				case err == dedup.ErrRequestPending:
					pend.Add(1)
					bodies.Done()
				case err == dedup.ErrWorkersBusy:
					busy.Add(1)
					bodies.Done()
				default:
					cached.Add(1)
					bodies.Done()
					emu.Lock()
					if !produced[err] {
						bad = append(bad, err.Error())
					}
					emu.Unlock()
				}
			}
		}()
	}
	wg.Wait()
	bodies.Wait()
	close(stop)
	clkDone.Wait()
	if over.Load() > 0 {
		viol = append(viol, rcViol{"requestcache-concurrent-executions-for-one-key/" + ctxFreeRun, fmt.Sprintf("%d overlapping executions", over.Load())})
	}
	if nexec.Load() != accepted.Load() {
		viol = append(viol, rcViol{"requestcache-accepted-starts-differ-from-executions/" + ctxFreeRun, fmt.Sprintf("%d accepted, %d executed", accepted.Load(), nexec.Load())})
	}
	if len(bad) > 0 {
		viol = append(viol, rcViol{"requestcache-returned-error-no-body-produced/" + ctxFreeRun, strings.Join(bad, ",")})
	}
	outcome = map[string]int64{"accepted": accepted.Load(), "pending": pend.Load(), "workers_busy": busy.Load(), "cached_error": cached.Load()}
	return int64(goroutines * perG), nexec.Load(), viol, outcome
}

type quickRunner struct {
	infl  map[string]*atomic.Int32
	over  atomic.Int64
	nexec atomic.Int64
}

func (q *quickRunner) Run(input interface{}) (interface{}, time.Duration) {
	k := input.(string)
	c := q.infl[k[strings.IndexByte(k, '.')+1:]]
	if c.Add(1) > 1 {
		q.over.Add(1)
	}
	n := q.nexec.Add(1)
	runtime.Gosched()
	c.Add(-1)
	// ttl per run: negative, zero, tiny, normal
	return int(n), []time.Duration{-sec, 0, time.Millisecond, 30 * sec, 60 * sec}[n%5]
}

func stressLimiter(rnd *rand.Rand, goroutines, perG int) (calls, execs int64, viol []rcViol) {
	sid := "s" + fmt.Sprint(sidSeq.Add(1))
	prnd := rand.New(rand.NewSource(rnd.Int63()))
	sess := hub.NewSession(sid, func(name, key string) sched.Action {
		switch x := prnd.Intn(8); {
		case x < 3:
			return sched.Yield
		case x < 4:
			return sched.Nap
		}
		return sched.Pass
	})
	sess.CountOnly(true)
	defer sess.Close()
	clk := clock.NewMock()
	q := &quickRunner{infl: map[string]*atomic.Int32{"x": new(atomic.Int32), "y": new(atomic.Int32)}}
	lim := dedup.NewLimiter(clk, q)
	stop := make(chan struct{})
	var clkDone sync.WaitGroup
	clkDone.Add(1)
	go func() {
		defer clkDone.Done()
		for {
			select {
			case <-stop:
				return
			default:
				clk.Add(31 * sec)
			}
		}
	}()
	var wg sync.WaitGroup
	for g := 0; g < goroutines; g++ {
		wg.Add(1)
		seed := rnd.Int63()
		go func() {
			defer wg.Done()
			r := rand.New(rand.NewSource(seed))
			for i := 0; i < perG; i++ {
				lim.Run(sid + "." + []string{"x", "y"}[r.Intn(2)])
			}
		}()
	}
	wg.Wait()
	close(stop)
	clkDone.Wait()
	if q.over.Load() > 0 {
		viol = append(viol, rcViol{sigLimOverlap + "/" + ctxFreeRun, fmt.Sprintf("%d overlapping executions", q.over.Load())})
	}
	return int64(goroutines * perG), q.nexec.Load(), viol
}

// ---------------------------------------------------------------------------
// Entry point
// ---------------------------------------------------------------------------

func pool(n int, jobs []func()) {
	ch := make(chan func())
	var wg sync.WaitGroup
	for i := 0; i < n; i++ {
		wg.Add(1)
		go func() {
			defer wg.Done()
			for j := range ch {
				j()
			}
		}()
	}
	for _, j := range jobs {
		ch <- j
	}
	close(ch)
	wg.Wait()
}

func flagList(m map[string]bool) []string {
	var s []string
	for k := range m {
		s = append(s, k)
	}
	sort.Strings(s)
	return s
}

func TestC29(t *testing.T) {
	run := ev.Start(t, "C29", "exploration",
		"PRNG-generated action schedules executed by one controlling goroutine against the real objects on the mock clock. RequestCache: 8-21 actions over 1-3 keys (start / finish ok|error|not-found / advance around the TTLs, cleanup interval and busy timeout), 1-2 workers. Limiter: 8-19 actions over 1-2 inputs (call = caller parks at the yield point holding its task / release / finish with runner ttl negative, 0, 1ms .. 5m / advance up to 6m, GC interval 1m). IntervalTrap: rounds of barrier-released concurrent Trap calls with the clock advanced past or short of the interval. Plus free-running stress of RequestCache and Limiter. "+
			"A case is one schedule, distinct by its action list; non-trivial when it contained a Start while the key was pending / parked without worker / error-cached (RequestCache), a release while another caller's execution was in flight or a GC pass while a parked caller held an idle task (Limiter), a due round (IntervalTrap).")
	defer run.Finish()
	run.Assume("the bodies / runners report the number of executions in flight per key at entry; the controller knows the mock time exactly")
	run.Assume("clock advances never land exactly on a TTL / interval / timeout boundary")
	par := runtime.GOMAXPROCS(0)
	if par > 16 {
		par = 16
	}
	var mu sync.Mutex
	report := func(kind, caseID string, viol []rcViol, witness interface{}) {
		for _, v := range viol {
			run.Violation(v.Sig, caseID, map[string]interface{}{"component": kind, "detail": v.Detail, "witness": witness})
		}
	}
	replay := run.ReplayCase()

	// ---- A: RequestCache scripted ----
	nRC := run.N(260, 20000)
	rrc := run.Rand("requestcache")
	var jobs []func()
	for i := 0; i < nRC; i++ {
		c := genRCCase(rrc)
		caseID := "RC|" + ev.JSON(c)
		if replay != "" && replay != caseID {
			continue
		}
		jobs = append(jobs, func() {
			r, inc := runRCCase(c)
			if inc != "" {
				run.Inconclusive("requestcache: " + inc + " case=" + caseID)
				return
			}
			nt := r.flags["start-while-running"] || r.flags["start-while-blocked"] || r.flags["start-while-error-cached"] || r.flags["start-without-free-worker"]
			run.Case(caseID, nt)
			run.Count("requestcache_schedules", 1)
			run.Count("requestcache_body_executions", int64(r.execs))
			run.Count("requestcache_actions", int64(len(r.trace)))
			for f := range r.flags {
				run.Count("requestcache_"+f, 1)
			}
			run.Distinct("interleavings", "rc:"+sched.HashOrder(r.trace))
			mu.Lock()
			if run.WantSample() && nt && i%37 == 0 {
				run.Sample(map[string]interface{}{"component": "RequestCache", "case": c, "observed": r.trace})
			}
			mu.Unlock()
			report("RequestCache", caseID, r.viol, map[string]interface{}{"case": c, "trace": r.trace})
		})
	}
	pool(par, jobs)

	// ---- B: Limiter scripted ----
	nLim := run.N(260, 20000)
	rl := run.Rand("limiter")
	jobs = jobs[:0]
	for i := 0; i < nLim; i++ {
		c := genLimCase(rl)
		caseID := "LIM|" + ev.JSON(c)
		if replay != "" && replay != caseID {
			continue
		}
		jobs = append(jobs, func() {
			l, inc := runLimCase(c)
			if inc != "" {
				run.Inconclusive("limiter: " + inc + " case=" + caseID)
				return
			}
			nt := l.flags["release-while-running"] || l.flags["gc-pass-while-idle-task-held"]
			run.Case(caseID, nt)
			run.Count("limiter_schedules", 1)
			run.Count("limiter_executions", int64(l.execs))
			run.Count("limiter_callers", int64(len(l.callers)))
			for f := range l.flags {
				run.Count("limiter_"+f, 1)
			}
			for a, n := range l.anomaly {
				run.Count("limiter_outside_statement_"+a, int64(n))
			}
			run.Distinct("interleavings", "lim:"+sched.HashOrder(l.trace))
			mu.Lock()
			if run.WantSample() && nt && i%41 == 0 {
				run.Sample(map[string]interface{}{"component": "Limiter", "case": c, "observed": l.trace})
			}
			mu.Unlock()
			report("Limiter", caseID, l.viol, map[string]interface{}{"case": c, "trace": l.trace, "gc_pass_while_held": flagList(l.gcHeld)})
		})
	}
	pool(par, jobs)
	if replay != "" {
		return
	}

	// ---- C: IntervalTrap ----
	nTrap := run.N(40, 800)
	rt := run.Rand("intervaltrap")
	jobs = jobs[:0]
	for i := 0; i < nTrap; i++ {
		seed := rt.Int63()
		jobs = append(jobs, func() {
			rounds, n := 60, runtime.GOMAXPROCS(0)-1
			if n > 12 {
				n = 12
			}
			if n < 2 {
				n = 2
			}
			runs, due, viol, sig := trapRounds(rand.New(rand.NewSource(seed)), rounds, n)
			caseID := fmt.Sprintf("TRAP|%d", seed)
			run.Case(caseID, due > 0)
			run.Count("intervaltrap_rounds", int64(rounds))
			run.Count("intervaltrap_due_rounds", int64(due))
			run.Count("intervaltrap_task_runs", int64(runs))
			run.Count("intervaltrap_concurrent_trap_calls", int64(rounds*n))
			run.Distinct("interleavings", "trap:"+sig)
			report("IntervalTrap", caseID, viol, map[string]interface{}{"seed": seed})
		})
	}
	pool(1, jobs) // one trap at a time: the concurrent Trap calls need the processors

	// ---- D: free-running stress ----
	nStress := run.N(10, 200)
	rs := run.Rand("stress")
	for i := 0; i < nStress; i++ {
		s1, e1, v1, oc := stressRC(rand.New(rand.NewSource(rs.Int63())), 12, 60)
		run.Count("stress_requestcache_starts", s1)
		run.Count("stress_requestcache_executions", e1)
		for k, n := range oc {
			run.Count("stress_requestcache_start_"+k, n)
		}
		report("RequestCache", fmt.Sprintf("STRESS-RC|%d", i), v1, nil)
		s2, e2, v2 := stressLimiter(rand.New(rand.NewSource(rs.Int63())), 12, 400)
		run.Count("stress_limiter_calls", s2)
		run.Count("stress_limiter_executions", e2)
		report("Limiter", fmt.Sprintf("STRESS-LIM|%d", i), v2, nil)
		run.Case(fmt.Sprintf("STRESS|%d|%d|%d", i, e1, e2), e1 > 0 && e2 > 0)
	}
}
