// C30: retried tasks run until they succeed, across failures and restarts.
//
// kill-restart engine. A child process (cmd/c30mgr, built from /repo's working
// tree) runs the real persistedretry managers (write-back and tag replication)
// over the real sqlite-backed stores in one localdb file, with tiny poll/retry
// intervals and small queues. Only the executor is scripted: it logs every
// attempt (start / outcome) to an append-only file, fails a PRNG-determined
// share of attempts and can be gated. The parent adds tasks over a control
// pipe (an acknowledged Add is recorded), kills the child at PRNG-chosen points
// (between requests, while executions are blocked in the executor, and on
// entry to the N-th write-type syscall via strace fault injection, i.e. in the
// middle of sqlite commits), restarts it on the same directory and finally
// stops injecting failures.
//
// Oracles (decisive ones are safety):
//   - never lost: at every restart point (child dead, db read by the parent)
//     and at every in-life dump, every acknowledged task is in the store or has
//     a logged successful attempt;
//   - a row disappears only after a success was logged for it;
//   - a duplicate Add of a task that is blocked mid-execution causes no second
//     execution (exactly one attempt);
//   - restart scheduling: a row that is pending right after the constructor
//     returned although no queue/worker can hold it, and that is still pending
//     without a single attempt when the bounded progress window ends, can never
//     run in this process life (violation); any other expiry of the progress
//     window is inconclusive (pending set shown).
package c30

import (
	"bufio"
	"database/sql"
	"fmt"
	"math/rand"
	"os"
	"path/filepath"
	"sort"
	"strings"
	"sync"
	"testing"
	"time"

	_ "github.com/mattn/go-sqlite3"

	"verif/harness/internal/ev"
	"verif/harness/internal/proc"
)

// ---------------------------------------------------------------------------
// scripts

type config struct {
	InBuf, RetryBuf, InW, RetryW int
	FaultPct, SlowMs             int
}

type op struct {
	Op      string `json:"op"` // add | dup | gate | sleep | dump | dupstrict
	Kind    string `json:"kind,omitempty"`
	A       string `json:"a,omitempty"`
	B       string `json:"b,omitempty"`
	DelayMs int    `json:"delay_ms,omitempty"`
	Open    bool   `json:"open,omitempty"`
	Ms      int    `json:"ms,omitempty"`
	N       int    `json:"n,omitempty"` // addmany
}

type life struct {
	StraceWhen int    `json:"strace_when,omitempty"` // >0: run under strace from the start, SIGKILL on entry to the N-th write-type syscall of a thread
	AttachWhen int    `json:"attach_when,omitempty"` // >0: attach strace after start-up, SIGKILL on entry to the N-th write-type syscall of a thread
	GateClosed bool   `json:"gate_closed,omitempty"`
	Ops        []op   `json:"ops"`
	Kill       string `json:"kill"` // now | blocked
}

type script struct {
	ID      string `json:"id"`
	Backlog bool   `json:"large_backlog,omitempty"`
	Cfg     config `json:"cfg"`
	Lives   []life `json:"lives"`
}

// genBacklogScript: the "large backlog" family. Executor gated, queues large
// enough to accept everything, 1100-1500 write-back and 150-400 tag-replication
// Adds acknowledged, SIGKILL with all of them pending, (sometimes a second
// gated life), then the fault-free final life must run every one of them.
func genBacklogScript(r *rand.Rand, id string, quick bool) script {
	s := script{ID: id, Backlog: true, Cfg: config{InBuf: 4000, RetryBuf: 4000, InW: 2, RetryW: 2}}
	first := life{GateClosed: true, Kill: "now", Ops: []op{
		{Op: "addmany", Kind: "wb", A: fmt.Sprintf("ns%d", r.Intn(3)), B: "backlog-" + id, N: map[bool]int{true: 1050 + r.Intn(101), false: 1100 + r.Intn(401)}[quick]},
		{Op: "addmany", Kind: "tr", A: "repo/backlog-" + id, B: []string{"remote-a:80", "remote-b:80"}[r.Intn(2)], N: map[bool]int{true: 100 + r.Intn(51), false: 150 + r.Intn(251)}[quick]},
		{Op: "dump"},
	}}
	s.Lives = append(s.Lives, first)
	if r.Intn(2) == 0 {
		// a second life that also dies with everything still unexecuted
		s.Lives = append(s.Lives, life{GateClosed: true, Kill: "now", Ops: []op{{Op: "sleep", Ms: 100}, {Op: "dump"}}})
	}
	return s
}

func genScript(r *rand.Rand, id string, quick bool) script {
	pick := func(v ...int) int { return v[r.Intn(len(v))] }
	s := script{ID: id, Cfg: config{
		InBuf: pick(1, 2, 4), RetryBuf: pick(1, 1, 1, 2, 4), InW: pick(1, 1, 2), RetryW: pick(1, 1, 1, 2),
		FaultPct: pick(30, 50, 70, 90), SlowMs: pick(0, 0, 2, 8),
	}}
	nl := 3 + r.Intn(3)
	if !quick {
		nl = 3 + r.Intn(5)
	}
	n := 0
	var recent []op
	for li := 0; li < nl; li++ {
		l := life{GateClosed: r.Intn(3) == 0}
		switch r.Intn(6) {
		case 0:
			l.StraceWhen = 3 + r.Intn(120)
		case 1, 2:
			l.AttachWhen = 1 + r.Intn(12)
		}
		if li == 0 && l.StraceWhen == 0 {
			l.Ops = append(l.Ops, op{Op: "dupstrict", Kind: []string{"wb", "tr"}[r.Intn(2)]})
		}
		no := 3 + r.Intn(10)
		gateOpen := !l.GateClosed
		for i := 0; i < no; i++ {
			switch x := r.Intn(10); {
			case x < 5:
				n++
				o := op{Op: "add", DelayMs: pick(0, 0, 0, 25, 80, 400, 1500)}
				if y := r.Intn(6); y < 2 {
					// the same blob name written back under two namespaces (two
					// different tasks; the executor fails them independently)
					o.Kind, o.B = "wb", fmt.Sprintf("shared-%s-%d", id, n)
					p := r.Perm(3)
					for _, ns := range p[:2] {
						o.A = fmt.Sprintf("ns%d", ns)
						l.Ops = append(l.Ops, o)
						recent = append(recent, o)
					}
					continue
				} else if y < 4 {
					o.Kind, o.A, o.B = "wb", fmt.Sprintf("ns%d", r.Intn(3)), fmt.Sprintf("blob-%s-%d", id, n)
				} else {
					o.Kind, o.A, o.B = "tr", fmt.Sprintf("repo/img-%s:%d", id, n), []string{"remote-a:80", "remote-b:80"}[r.Intn(2)]
				}
				l.Ops = append(l.Ops, o)
				recent = append(recent, o)
			case x < 7 && len(recent) > 0:
				o := recent[len(recent)-1-r.Intn(min(3, len(recent)))]
				o.Op = "dup"
				l.Ops = append(l.Ops, o)
			case x < 8:
				gateOpen = !gateOpen
				l.Ops = append(l.Ops, op{Op: "gate", Open: gateOpen})
			case x < 9:
				l.Ops = append(l.Ops, op{Op: "sleep", Ms: pick(5, 20, 60)})
			default:
				l.Ops = append(l.Ops, op{Op: "dump"})
			}
		}
		l.Kill = []string{"now", "now", "blocked"}[r.Intn(3)]
		s.Lives = append(s.Lives, l)
	}
	return s
}

// ---------------------------------------------------------------------------
// child protocol

type row struct {
	Key      string `json:"key"`
	Status   string `json:"status"`
	Failures int    `json:"failures"`
	Due      bool   `json:"due"`
}

type mgrState struct {
	Rows     []row    `json:"rows"`
	QIn      int      `json:"q_in"`
	QRetry   int      `json:"q_retry"`
	Workers  int      `json:"workers"`
	Inflight []string `json:"inflight"`
	Polls    int      `json:"polls"`
	Err      string   `json:"err,omitempty"`
}

type reply struct {
	OK    bool     `json:"ok"`
	Ready bool     `json:"ready"`
	Err    string   `json:"err"`
	Failed []int    `json:"failed"`
	WB     mgrState `json:"wb"`
	TR    mgrState `json:"tr"`
}

type attempt struct {
	Key     string
	N       int
	Started bool
	Outcome string // "", ok, fail
	Pos     int    // line number of the start line
}

// readLog parses attempts.log (a trailing partial line is ignored).
func readLog(dir string) (attempts []attempt, success map[string]bool, lines int) {
	success = map[string]bool{}
	f, err := os.Open(filepath.Join(dir, "attempts.log"))
	if err != nil {
		return nil, success, 0
	}
	defer f.Close()
	idx := map[string]int{}
	rd := bufio.NewReader(f)
	for {
		l, err := rd.ReadString('\n')
		if err != nil {
			break
		}
		lines++
		f := strings.Fields(l)
		if len(f) < 3 {
			continue
		}
		var n int
		fmt.Sscanf(f[2], "%d", &n)
		id := f[1] + "#" + f[2]
		switch f[0] {
		case "S":
			idx[id] = len(attempts)
			attempts = append(attempts, attempt{Key: f[1], N: n, Started: true, Pos: lines})
		case "E":
			if i, ok := idx[id]; ok && len(f) >= 4 {
				attempts[i].Outcome = f[3]
				if f[3] == "ok" {
					success[f[1]] = true
				}
			}
		}
	}
	return attempts, success, lines
}

// readDB reads all task rows with the parent's own connection (child dead).
func readDB(dir string) (map[string]row, error) {
	out := map[string]row{}
	p := filepath.Join(dir, "db", "kraken.db")
	if _, err := os.Stat(p); err != nil {
		return out, nil
	}
	db, err := sql.Open("sqlite3", p)
	if err != nil {
		return nil, err
	}
	defer db.Close()
	for _, q := range []struct{ prefix, sql string }{
		{"wb", "SELECT namespace, name, status, failures FROM writeback_task"},
		{"tr", "SELECT tag, destination, status, failures FROM replicate_tag_task"},
	} {
		rs, err := db.Query(q.sql)
		if err != nil {
			if strings.Contains(err.Error(), "no such table") {
				continue
			}
			return nil, err
		}
		for rs.Next() {
			var a, b, st string
			var f int
			if err := rs.Scan(&a, &b, &st, &f); err != nil {
				rs.Close()
				return nil, err
			}
			k := q.prefix + "|" + a + "|" + b
			out[k] = row{Key: k, Status: st, Failures: f}
		}
		rs.Close()
	}
	return out, nil
}

// ---------------------------------------------------------------------------
// running one script

type runner struct {
	run  *ev.Run
	bin  string
	dir  string
	sc   script
	seed int64

	acked     map[string]int // key -> number of acknowledged Adds
	ackLife   map[string]int
	everRows  map[string]bool // keys seen as a row at some observation
	prevRows  map[string]bool
	history   []string // compact event history for witnesses
	dupStrict []string // keys that must have exactly one attempt

	lost                map[string]bool // tasks already reported as lost
	killsWithUnfinished int
	structural          map[string]bool // pending-at-startup keys of the current life flagged as unschedulable
	orphan              map[string]*orphanObs
	lifeStartLine       int
}

func kindOf(key string) string { return strings.SplitN(key, "|", 2)[0] }

func (r *runner) note(f string, a ...interface{}) {
	if len(r.history) < 400 {
		r.history = append(r.history, fmt.Sprintf(f, a...))
	}
}

func (r *runner) witness(extra map[string]interface{}) map[string]interface{} {
	att, _, _ := readLog(r.dir)
	var al []string
	for _, a := range att {
		al = append(al, fmt.Sprintf("%s#%d=%s", a.Key, a.N, a.Outcome))
	}
	if len(al) > 300 {
		al = al[len(al)-300:]
	}
	w := map[string]interface{}{"script": r.sc, "history": r.history, "attempt_log": al}
	for k, v := range extra {
		w[k] = v
	}
	return w
}

// checkNeverLost: rows must have been read BEFORE the log.
func (r *runner) checkNeverLost(rows map[string]bool, where string) {
	_, success, _ := readLog(r.dir)
	var keys []string
	for k := range r.acked {
		keys = append(keys, k)
	}
	sort.Strings(keys)
	for _, k := range keys {
		if !rows[k] && !success[k] && !r.lost[k] {
			r.lost[k] = true
			r.run.Violation("acked-task-lost/"+kindOf(k), r.sc.ID, r.witness(map[string]interface{}{
				"lost_task": k, "observed_at": where, "acked_in_life": r.ackLife[k],
				"why": "the Add was acknowledged, the task has no logged successful attempt and its row is not in the store"}))
		}
	}
	for k := range r.prevRows {
		if !rows[k] && !success[k] && !r.lost[k] {
			if _, acked := r.acked[k]; acked {
				continue // already reported above
			}
			r.lost[k] = true
			r.run.Violation("row-removed-without-success/"+kindOf(k), r.sc.ID, r.witness(map[string]interface{}{
				"task": k, "observed_at": where,
				"why": "the row was in the store at an earlier observation, is gone now, and no successful attempt was logged"}))
		}
	}
	r.prevRows = rows
	for k := range rows {
		r.everRows[k] = true
	}
	r.run.Count("never_lost_checks", 1)
}

func rowsOf(rep reply) map[string]bool {
	m := map[string]bool{}
	for _, x := range rep.WB.Rows {
		m[x.Key] = true
	}
	for _, x := range rep.TR.Rows {
		m[x.Key] = true
	}
	return m
}

func (r *runner) unfinished() []string {
	_, success, _ := readLog(r.dir)
	var out []string
	for k := range r.acked {
		if !success[k] && !r.lost[k] {
			out = append(out, k)
		}
	}
	sort.Strings(out)
	return out
}

const callTimeout = 30 * time.Second

const killSet = "write,pwrite64,fsync,fdatasync,unlink,unlinkat,ftruncate,rename,renameat"

func (r *runner) start(li int, l *life, final bool) (*proc.Child, reply, error) {
	c := r.sc.Cfg
	slow := c.SlowMs
	if final && slow < 5 && !r.sc.Backlog {
		slow = 5 // keep the retry worker busy so that the retry queue overflows when many tasks are due together
	}
	args := []string{"-dir", r.dir, "-seed", fmt.Sprint(r.seed),
		"-in-buf", fmt.Sprint(c.InBuf), "-retry-buf", fmt.Sprint(c.RetryBuf),
		"-in-workers", fmt.Sprint(c.InW), "-retry-workers", fmt.Sprint(c.RetryW),
		"-slow-ms", fmt.Sprint(slow), "-poll-ms", "20", "-retry-ms", "30"}
	o := proc.Opts{Dir: r.dir}
	if final {
		args = append(args, "-fault-pct", "0", "-gate", "open")
	} else {
		args = append(args, "-fault-pct", fmt.Sprint(c.FaultPct))
		if l.GateClosed {
			args = append(args, "-gate", "closed")
		}
		if l.StraceWhen > 0 {
			o.Trace = killSet
			o.Inject = fmt.Sprintf("%s:signal=KILL:when=%d", killSet, l.StraceWhen)
			o.Log = filepath.Join(r.dir, fmt.Sprintf("strace-%d.log", li))
		}
	}
	_, _, r.lifeStartLine = readLog(r.dir)
	ch, err := proc.Start(o, r.bin, args...)
	if err != nil {
		return nil, reply{}, err
	}
	var hello reply
	if err := ch.Recv(&hello, 90*time.Second); err != nil {
		return ch, hello, err
	}
	return ch, hello, nil
}

// structuralOrphans evaluates the startup report: rows pending right after the
// constructor returned that no queue slot, worker or ticker step can account for.
func (r *runner) structuralOrphans(hello reply) {
	r.structural = map[string]bool{}
	for _, st := range []mgrState{hello.WB, hello.TR} {
		var pending []string
		for _, x := range st.Rows {
			if x.Status == "pending" {
				pending = append(pending, x.Key)
			}
		}
		if len(pending) > st.QIn+st.QRetry+st.Workers+1+len(st.Inflight) {
			for _, k := range pending {
				r.structural[k] = true
			}
			r.run.Count("startups_with_unschedulable_pending_rows", 1)
			r.note("startup: %d pending rows, queues %d+%d, workers %d, inflight %d", len(pending), st.QIn, st.QRetry, st.Workers, len(st.Inflight))
		}
	}
}

// execute runs the script; returns "" or the reason the bounded-progress window expired.
func (r *runner) execute() (expired string, pendingSet []string) {
	run := r.run
	for li := range r.sc.Lives {
		l := &r.sc.Lives[li]
		ch, hello, err := r.start(li, l, false)
		died := false
		if err != nil {
			if err == proc.ErrExited && l.StraceWhen > 0 && ch != nil {
				died = true // injected kill during start-up (migrations / constructor)
				run.Count("kills_during_startup", 1)
				r.note("life %d: killed during start-up (strace when=%d)", li, l.StraceWhen)
			} else {
				run.Inconclusive(fmt.Sprintf("%s life %d: child did not start: %v %s", r.sc.ID, li, err, stderrOf(ch)))
				if ch != nil {
					ch.Kill()
				}
				return "", nil
			}
		}
		waitStrace := func() {}
		if !died && l.AttachWhen > 0 {
			w, err := proc.AttachInject(ch.Pid(), killSet, l.AttachWhen, filepath.Join(r.dir, fmt.Sprintf("attach-%d.log", li)))
			if err != nil {
				run.Inconclusive(fmt.Sprintf("%s life %d: strace attach: %v", r.sc.ID, li, err))
			} else {
				waitStrace = w
			}
		}
		if !died {
			r.structuralOrphans(hello)
			r.note("life %d started (strace_when=%d attach_when=%d gate_closed=%v)", li, l.StraceWhen, l.AttachWhen, l.GateClosed)
			call := func(req interface{}) (reply, bool) {
				var rep reply
				if err := ch.Call(req, &rep, callTimeout); err != nil {
					if err == proc.ErrTimeout {
						run.Inconclusive(fmt.Sprintf("%s life %d: child did not answer %v", r.sc.ID, li, req))
					}
					return rep, false
				}
				return rep, true
			}
		ops:
			for _, o := range l.Ops {
				switch o.Op {
				case "add", "dup":
					rep, ok := call(map[string]interface{}{"op": "add", "kind": o.Kind, "a": o.A, "b": o.B, "delay_ms": o.DelayMs})
					if !ok {
						died = true
						break ops
					}
					key := o.Kind + "|" + o.A + "|" + o.B
					if rep.OK {
						r.acked[key]++
						if _, seen := r.ackLife[key]; !seen {
							r.ackLife[key] = li
						}
						run.Count("adds_acknowledged", 1)
						if o.Op == "dup" {
							run.Count("duplicate_adds", 1)
						}
						r.note("ack %s %s", o.Op, key)
					} else {
						run.Count("adds_refused", 1)
						r.note("add refused %s: %s", key, rep.Err)
					}
				case "addmany":
					var rep reply
					if err := ch.Call(map[string]interface{}{"op": "addmany", "kind": o.Kind, "a": o.A, "b": o.B, "n": o.N}, &rep, 10*time.Minute); err != nil {
						if err == proc.ErrTimeout {
							run.Inconclusive(fmt.Sprintf("%s life %d: %d Adds did not finish", r.sc.ID, li, o.N))
						}
						died = true
						break ops
					}
					bad := map[int]bool{}
					for _, i := range rep.Failed {
						bad[i] = true
					}
					for i := 0; i < o.N; i++ {
						if bad[i] {
							continue
						}
						key := fmt.Sprintf("wb|%s|%s-%d", o.A, o.B, i)
						if o.Kind == "tr" {
							key = fmt.Sprintf("tr|%s:%d|%s", o.A, i, o.B)
						}
						r.acked[key]++
						r.ackLife[key] = li
					}
					run.Count("adds_acknowledged", int64(o.N-len(rep.Failed)))
					run.Count("adds_refused", int64(len(rep.Failed)))
					r.note("addmany %s: %d acknowledged, %d refused (%s)", o.Kind, o.N-len(rep.Failed), len(rep.Failed), rep.Err)
				case "gate":
					if _, ok := call(map[string]interface{}{"op": "gate", "open": o.Open}); !ok {
						died = true
						break ops
					}
				case "sleep":
					time.Sleep(time.Duration(o.Ms) * time.Millisecond)
				case "dump":
					rep, ok := call(map[string]interface{}{"op": "dump"})
					if !ok {
						died = true
						break ops
					}
					r.checkNeverLost(rowsOf(rep), fmt.Sprintf("life %d, in-life dump", li))
				case "dupstrict":
					if !r.dupStrictScenario(li, o.Kind, l.GateClosed, call) {
						died = ch.Exited()
						if died {
							break ops
						}
					}
				}
			}
			if !died && l.Kill == "blocked" {
				if _, ok := call(map[string]interface{}{"op": "gate", "open": false}); ok {
					for i := 0; i < 40; i++ {
						rep, ok := call(map[string]interface{}{"op": "dump"})
						if !ok || len(rep.WB.Inflight)+len(rep.TR.Inflight) > 0 {
							if ok {
								run.Count("kills_with_execution_in_flight", 1)
							}
							break
						}
						time.Sleep(10 * time.Millisecond)
					}
				}
			}
			if ch.Exited() {
				run.Count("kills_by_syscall_injection", 1)
				r.note("life %d: killed by strace injection (when=%d/%d)", li, l.StraceWhen, l.AttachWhen)
			} else {
				run.Count("kills_by_parent_"+l.Kill, 1)
				r.note("life %d: SIGKILL by parent (%s)", li, l.Kill)
			}
		}
		ch.Kill()
		waitStrace()
		run.Count("lives", 1)
		// restart point: the child is dead; read the store and the log
		if u := r.unfinished(); len(u) > 0 {
			r.killsWithUnfinished++
		}
		rows, err := readDB(r.dir)
		if err != nil {
			run.Inconclusive(fmt.Sprintf("%s: reading the db after kill %d: %v", r.sc.ID, li, err))
			return "", nil
		}
		rm := map[string]bool{}
		for k := range rows {
			rm[k] = true
		}
		r.note("restart point %d: %d rows", li, len(rows))
		r.checkNeverLost(rm, fmt.Sprintf("restart point after life %d", li))
	}

	// final life: no faults, gate open, bounded progress
	ch, hello, err := r.start(len(r.sc.Lives), nil, true)
	if err != nil {
		run.Inconclusive(fmt.Sprintf("%s final life: child did not start: %v %s", r.sc.ID, err, stderrOf(ch)))
		if ch != nil {
			ch.Kill()
		}
		return "", nil
	}
	defer ch.Kill()
	r.structuralOrphans(hello)
	finalStartLine := r.lifeStartLine
	deadline := time.Now().Add(40*time.Second + time.Duration(len(r.acked))*50*time.Millisecond)
	for {
		var rep reply
		if err := ch.Call(map[string]interface{}{"op": "dump"}, &rep, callTimeout); err != nil {
			run.Inconclusive(fmt.Sprintf("%s final life: dump failed: %v", r.sc.ID, err))
			return "", nil
		}
		r.checkNeverLost(rowsOf(rep), "final life, in-life dump")
		pend, failedDue := r.orphanWatch(rep)
		if len(pend) > 0 {
			run.Violation("pending-task-orphaned-outside-queues/"+kindOf(pend[0]), r.sc.ID, r.witness(map[string]interface{}{
				"orphaned_tasks": pend[:min(20, len(pend))], "orphaned_count": len(pend), "state": trimState(rep), "poll_rounds_observed": orphanPollRounds,
				"why": fmt.Sprintf("with the executor healthy and the gate open these rows stayed 'pending' while both queues were empty and no execution was in flight "+
					"in every dump over %d poll rounds of the manager, without a new attempt: the poller only re-reads failed rows, so nothing in this process will run them", orphanPollRounds)}))
			return "", nil
		}
		if len(failedDue) > 0 {
			run.Violation("ready-failed-task-never-polled/"+kindOf(failedDue[0]), r.sc.ID, r.witness(map[string]interface{}{
				"tasks": failedDue[:min(20, len(failedDue))], "count": len(failedDue), "state": trimState(rep), "poll_rounds_observed": orphanPollRounds,
				"why": fmt.Sprintf("these rows are 'failed', their delay and the retry interval elapsed more than 2 s ago, both queues were empty and nothing was in flight, "+
					"yet over %d poll rounds (GetFailed calls) of the manager none of them was attempted or re-marked pending: the poller never sees them", orphanPollRounds)}))
			return "", nil
		}
		u := r.unfinished()
		if len(u) == 0 {
			break
		}
		if time.Now().After(deadline) {
			// which of the stuck tasks were flagged at start-up and never attempted since?
			att, _, _ := readLog(r.dir)
			attempted := map[string]bool{}
			for _, a := range att {
				if a.Pos > finalStartLine {
					attempted[a.Key] = true
				}
			}
			var orphan []string
			status := map[string]string{}
			for _, x := range append(rep.WB.Rows, rep.TR.Rows...) {
				status[x.Key] = x.Status
			}
			for _, k := range u {
				if r.structural[k] && !attempted[k] && status[k] == "pending" {
					orphan = append(orphan, k)
				}
			}
			if len(orphan) > 0 {
				run.Violation("pending-rows-never-scheduled-after-restart/"+kindOf(orphan[0]), r.sc.ID, r.witness(map[string]interface{}{
					"orphaned_tasks": orphan, "final_state": rep,
					"why": "these rows were pending right after NewManager returned although queues and workers could not hold them, " +
						"and they are still pending without a single attempt after the fault-free progress window: nothing in this process will ever run them"}))
				return "", nil
			}
			return "bounded progress window expired", u
		}
		time.Sleep(50 * time.Millisecond)
	}
	// duplicate adds of a task blocked mid-execution: exactly one attempt, also at the end
	att, _, _ := readLog(r.dir)
	for _, k := range r.dupStrict {
		n := 0
		for _, a := range att {
			if a.Key == k {
				n++
			}
		}
		if n != 1 {
			run.Violation("duplicate-add-extra-execution/"+kindOf(k), r.sc.ID, r.witness(map[string]interface{}{
				"task": k, "attempts": n, "why": "the task was added again twice while its only execution was blocked; it succeeded at the first attempt, so exactly one attempt is expected"}))
		}
		run.Count("duplicate_strict_scenarios_checked", 1)
	}
	var rep reply
	if err := ch.Call(map[string]interface{}{"op": "close"}, &rep, callTimeout); err == nil {
		_ = ch.Wait(10 * time.Second)
		rows, err := readDB(r.dir)
		if err == nil {
			rm := map[string]bool{}
			for k := range rows {
				rm[k] = true
			}
			r.checkNeverLost(rm, "after clean shutdown")
			run.Count("rows_left_after_all_succeeded", int64(len(rows)))
		}
	}
	return "", nil
}

// orphanPollRounds is K: the number of the manager's own poll rounds (GetFailed
// calls, counted in the child) over which the orphan condition must hold.
const orphanPollRounds = 12

type orphanObs struct {
	polls0   int // poll counter when the condition was first seen
	attempts int // attempts of the task at that moment
}

// orphanWatch implements the logical "can never run again" verdict for the
// final (fault-free, gate open) life: a row that is pending while the queues of
// its manager are empty and nothing is in flight, in every dump over K poll
// rounds and without a new attempt, is outside every path that leads to an
// execution (queues are fed by Add and by the poller, and the poller only
// reads failed rows). Progress is measured in the manager's own poll rounds,
// never in wall-clock time.
func (r *runner) orphanWatch(rep reply) (pendingOrphans, failedOrphans []string) {
	if r.orphan == nil {
		r.orphan = map[string]*orphanObs{}
	}
	att, _, _ := readLog(r.dir)
	count := map[string]int{}
	for _, a := range att {
		count[a.Key]++
	}
	seen := map[string]bool{}
	for _, st := range []mgrState{rep.WB, rep.TR} {
		idle := st.QIn == 0 && st.QRetry == 0 && len(st.Inflight) == 0
		for _, x := range st.Rows {
			// pending outside the queues, or failed although due for a retry by the
			// manager's own criterion (delay elapsed, retry interval elapsed)
			if !idle || !(x.Status == "pending" || x.Status == "failed" && x.Due) {
				continue
			}
			id := x.Status + " " + x.Key
			seen[id] = true
			o := r.orphan[id]
			if o == nil || o.attempts != count[x.Key] {
				r.orphan[id] = &orphanObs{polls0: st.Polls, attempts: count[x.Key]}
				continue
			}
			if st.Polls-o.polls0 >= orphanPollRounds {
				if x.Status == "pending" {
					pendingOrphans = append(pendingOrphans, x.Key)
				} else {
					failedOrphans = append(failedOrphans, x.Key)
				}
			}
		}
	}
	for k := range r.orphan {
		if !seen[k] {
			delete(r.orphan, k) // condition interrupted: start over
		}
	}
	sort.Strings(pendingOrphans)
	sort.Strings(failedOrphans)
	return pendingOrphans, failedOrphans
}

// trimState keeps witnesses small for large backlogs.
func trimState(rep reply) reply {
	for _, st := range []*mgrState{&rep.WB, &rep.TR} {
		if len(st.Rows) > 40 {
			st.Rows = st.Rows[:40]
		}
	}
	return rep
}

func stderrOf(c *proc.Child) string {
	if c == nil {
		return ""
	}
	s := c.Stderr()
	if len(s) > 600 {
		s = s[len(s)-600:]
	}
	return s
}

// dupStrictScenario: gate closed, add T, wait until T is blocked in the
// executor, add T twice more, open the gate, wait until T succeeded and its row
// is gone. Returns false when the scenario could not be completed.
func (r *runner) dupStrictScenario(li int, kind string, gateClosedAfter bool, call func(interface{}) (reply, bool)) bool {
	a, b := "nsdup", "dup-"+r.sc.ID
	if kind == "tr" {
		a, b = "repo/dup-"+r.sc.ID+":1", "remote-a:80"
	}
	key := kind + "|" + a + "|" + b
	if _, ok := call(map[string]interface{}{"op": "gate", "open": false}); !ok {
		return false
	}
	add := map[string]interface{}{"op": "add", "kind": kind, "a": a, "b": b}
	rep, ok := call(add)
	if !ok || !rep.OK {
		return false
	}
	r.acked[key]++
	r.ackLife[key] = li
	r.note("ack add %s (duplicate scenario)", key)
	blocked := false
	for i := 0; i < 300 && !blocked; i++ {
		rep, ok := call(map[string]interface{}{"op": "dump"})
		if !ok {
			return false
		}
		for _, k := range append(rep.WB.Inflight, rep.TR.Inflight...) {
			if k == key {
				blocked = true
			}
		}
		if !blocked {
			time.Sleep(10 * time.Millisecond)
		}
	}
	if !blocked {
		r.run.Count("duplicate_strict_scenarios_skipped", 1)
		_, _ = call(map[string]interface{}{"op": "gate", "open": !gateClosedAfter})
		return true
	}
	for i := 0; i < 2; i++ {
		rep, ok := call(add)
		if !ok {
			return false
		}
		if rep.OK {
			r.acked[key]++
			r.run.Count("duplicate_adds", 1)
		}
	}
	if _, ok := call(map[string]interface{}{"op": "gate", "open": true}); !ok {
		return false
	}
	done := false
	for i := 0; i < 600 && !done; i++ {
		rep, ok := call(map[string]interface{}{"op": "dump"})
		if !ok {
			return false
		}
		_, success, _ := readLog(r.dir)
		if success[key] && !rowsOf(rep)[key] {
			done = true
		} else {
			time.Sleep(10 * time.Millisecond)
		}
	}
	if done {
		r.dupStrict = append(r.dupStrict, key)
	} else {
		r.run.Count("duplicate_strict_scenarios_skipped", 1)
	}
	if gateClosedAfter {
		_, _ = call(map[string]interface{}{"op": "gate", "open": false})
	}
	return true
}

func runScript(t *testing.T, run *ev.Run, bin, base string, sc script, seed int64) {
	for attempt := 0; attempt < 2; attempt++ {
		dir := filepath.Join(base, fmt.Sprintf("%s-%d", sc.ID, attempt))
		if sc.Backlog {
			// ~6000 sqlite commits: keep this family's database on tmpfs when there is
			// one (identical under the process-kill model: no power loss), so that the
			// fsyncs do not dominate the quick tier; removed below
			if d, err := os.MkdirTemp("/dev/shm", "verif-c30-"); err == nil {
				dir = filepath.Join(d, fmt.Sprintf("%s-%d", sc.ID, attempt))
				defer os.RemoveAll(d)
			}
		}
		if err := os.MkdirAll(dir, 0o755); err != nil {
			t.Fatal(err)
		}
		r := &runner{run: run, bin: bin, dir: dir, sc: sc, seed: seed,
			acked: map[string]int{}, ackLife: map[string]int{}, everRows: map[string]bool{}, prevRows: map[string]bool{}, lost: map[string]bool{}}
		expired, pending := r.execute()
		att, _, _ := readLog(dir)
		fails := 0
		for _, a := range att {
			if a.Outcome == "fail" {
				fails++
			}
		}
		if attempt == 0 {
			run.Case(ev.JSON(sc), r.killsWithUnfinished > 0 && (fails > 0 || sc.Backlog))
			run.Count("attempts_logged", int64(len(att)))
			run.Count("failed_attempts_logged", int64(fails))
			run.Count("kills_with_unfinished_acked_tasks", int64(r.killsWithUnfinished))
			if run.WantSample() {
				run.Sample(map[string]interface{}{"script": sc.ID, "cfg": sc.Cfg, "lives": len(sc.Lives), "acked": len(r.acked), "attempts": len(att)})
			}
		}
		_ = os.RemoveAll(dir)
		if expired == "" {
			return
		}
		if attempt == 1 {
			run.Inconclusive(fmt.Sprintf("%s: %s twice; tasks without a successful attempt: %v", sc.ID, expired, pending))
		} else {
			run.Count("progress_window_expired_first_try", 1)
		}
	}
}

func TestC30(t *testing.T) {
	run := ev.Start(t, "C30", "fault_enumeration",
		"PRNG-generated kill scripts against the real persistedretry managers (write-back + tag replication) on one sqlite db: per script a queue/worker/"+
			"fault configuration and 3-7 process lives, each with 3-12 operations (Add of new write-back / tag-replication tasks with and without delay, duplicate Adds, "+
			"executor gate toggles, pauses, consistency dumps) ended by SIGKILL (between requests, with executions blocked in the executor, or on entry to the N-th "+
			"write-type syscall under strace fault injection), then a fault-free final life; plus a large-backlog family (gated executor, 1100-1500 write-back and 150-400 tag-replication Adds "+
			"acknowledged into queues of 4000, SIGKILL with everything pending, restart with a healthy executor). A script is non-trivial when at least one kill hit while an acknowledged "+
			"task was unfinished and at least one failed attempt was logged (backlog family: a kill with the whole backlog unfinished); distinct = distinct scripts.")
	defer run.Finish()
	run.Assume("process-crash model: completed syscalls persist after SIGKILL (no power loss); the attempt log is written with one write(2) per line and not fsync'ed")
	run.Assume("the scripted executor (child) is the only fake; managers, stores, sqlite and migrations are the real code")
	run.Assume("bounded progress after faults stop is a watchdog: its expiry alone is inconclusive")

	bin := proc.Build(t, "./c30/cmd/c30mgr", raceEnabled)
	base := ev.TempDir(t, "c30-")
	n := run.N(12, 100)
	r := run.Rand("scripts")
	var scripts []script
	for i := 0; i < n; i++ {
		scripts = append(scripts, genScript(r, fmt.Sprintf("k%d", i), run.Quick()))
	}
	// the large-backlog family: one script in quick, four in thorough (first, so
	// that they overlap with the short scripts)
	rb := run.Rand("backlog-scripts")
	var big []script
	for i := 0; i < run.N(1, 3); i++ {
		big = append(big, genBacklogScript(rb, fmt.Sprintf("big%d", i), run.Quick()))
	}
	scripts = append(big, scripts...)
	var wg sync.WaitGroup
	sem := make(chan struct{}, 8)
	for i := range scripts {
		wg.Add(1)
		go func(i int) {
			defer wg.Done()
			sem <- struct{}{}
			defer func() { <-sem }()
			runScript(t, run, bin, base, scripts[i], run.Seed()*1000+int64(i))
		}(i)
	}
	wg.Wait()
}
