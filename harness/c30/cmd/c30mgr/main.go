// c30mgr hosts the real persistedretry managers (write-back and tag
// replication) over the real sqlite-backed stores for the C30 kill-restart
// monitor. Only the executor is scripted: it appends every attempt to
// <dir>/attempts.log (one write(2) per line, O_APPEND) before and after
// executing, can be gated (blocks every execution until the parent opens the
// gate) and fails a PRNG-determined share of attempts.
//
// Control: JSON lines on stdin, one JSON reply per line on stdout.
package main

import (
	"bufio"
	"encoding/json"
	"errors"
	"flag"
	"fmt"
	"hash/fnv"
	"os"
	"path/filepath"
	"sort"
	"strings"
	"sync"
	"time"

	"github.com/jmoiron/sqlx"
	"github.com/uber-go/tally"
	"go.uber.org/zap"

	"github.com/uber/kraken/core"
	"github.com/uber/kraken/lib/persistedretry"
	"github.com/uber/kraken/lib/persistedretry/tagreplication"
	"github.com/uber/kraken/lib/persistedretry/writeback"
	"github.com/uber/kraken/localdb"
	"github.com/uber/kraken/utils/log"
)

func must(err error, what string) {
	if err != nil {
		fmt.Fprintf(os.Stderr, "c30mgr: %s: %v\n", what, err)
		os.Exit(2)
	}
}

func keyOf(t persistedretry.Task) string {
	switch v := t.(type) {
	case *writeback.Task:
		return "wb|" + v.Namespace + "|" + v.Name
	case *tagreplication.Task:
		return "tr|" + v.Tag + "|" + v.Destination
	}
	return fmt.Sprintf("?|%v", t)
}

type scriptExec struct {
	name     string
	seed     int64
	logf     *os.File
	slow     time.Duration
	mu       sync.Mutex
	cond     *sync.Cond
	gateOpen bool
	faultPct int
	attempts map[string]int
	inflight map[string]int
}

func (e *scriptExec) Name() string { return e.name }

func (e *scriptExec) line(s string) {
	// one write(2) per line; O_APPEND makes concurrent lines atomic
	_, _ = e.logf.WriteString(s + "\n")
}

func (e *scriptExec) Exec(t persistedretry.Task) error {
	key := keyOf(t)
	e.mu.Lock()
	e.attempts[key]++
	n := e.attempts[key]
	e.inflight[key]++
	e.line(fmt.Sprintf("S %s %d", key, n))
	for !e.gateOpen {
		e.cond.Wait()
	}
	pct := e.faultPct
	e.mu.Unlock()
	if e.slow > 0 {
		time.Sleep(e.slow)
	}
	h := fnv.New32a()
	fmt.Fprintf(h, "%d/%s/%d", e.seed, key, n)
	fail := pct > 0 && !strings.Contains(key, "dup-") && int(h.Sum32()%100) < pct
	e.mu.Lock()
	if fail {
		e.line(fmt.Sprintf("E %s %d fail", key, n))
	} else {
		e.line(fmt.Sprintf("E %s %d ok", key, n))
	}
	e.inflight[key]--
	if e.inflight[key] == 0 {
		delete(e.inflight, key)
	}
	e.mu.Unlock()
	if fail {
		return errors.New("scripted failure")
	}
	return nil
}

// countingStore delegates to the real store and counts GetFailed calls, i.e.
// completed-or-started poll rounds of the manager's ticker loop.
type countingStore struct {
	persistedretry.Store
	mu    sync.Mutex
	polls int
}

func (c *countingStore) GetFailed() ([]persistedretry.Task, error) {
	c.mu.Lock()
	c.polls++
	c.mu.Unlock()
	return c.Store.GetFailed()
}

func (c *countingStore) count() int {
	c.mu.Lock()
	defer c.mu.Unlock()
	return c.polls
}

type row struct {
	Key      string `json:"key"`
	Status   string `json:"status"`
	Failures int    `json:"failures"`
	Due      bool   `json:"due"`
}

type mgrState struct {
	Rows     []row    `json:"rows"`
	QIn      int      `json:"q_in"`
	QRetry   int      `json:"q_retry"`
	Workers  int      `json:"workers"`
	Inflight []string `json:"inflight"`
	Polls    int      `json:"polls"`
	Err      string   `json:"err,omitempty"`
}

type mgr struct {
	m      persistedretry.Manager
	db     *sqlx.DB
	query  string
	prefix string
	exec   *scriptExec
	cs     *countingStore

	retryInterval time.Duration
}

const (
	wbQuery = "SELECT namespace, name, status, failures, created_at, last_attempt, delay FROM writeback_task"
	trQuery = "SELECT tag, destination, status, failures, created_at, last_attempt, delay FROM replicate_tag_task"
)

func (g *mgr) state() mgrState {
	var st mgrState
	// queue lengths first, then rows: a task moving queue -> worker in between
	// is covered by the worker count
	st.Polls = g.cs.count()
	st.QIn, st.QRetry, st.Workers = persistedretry.VerifC30QueueLens(g.m)
	g.exec.mu.Lock()
	for k := range g.exec.inflight {
		st.Inflight = append(st.Inflight, k)
	}
	g.exec.mu.Unlock()
	sort.Strings(st.Inflight)
	// one SELECT = one consistent view of all rows and their status
	rs, err := g.db.Queryx(g.query)
	if err != nil {
		st.Err = err.Error()
		return st
	}
	defer rs.Close()
	for rs.Next() {
		var a, b, status string
		var failures int
		var created, last time.Time
		var delay int64
		if err := rs.Scan(&a, &b, &status, &failures, &created, &last, &delay); err != nil {
			st.Err = err.Error()
			return st
		}
		// due = what the manager's poller requires of a failed task (Ready() and the
		// retry interval since the last attempt), with 2 s to spare on both (the
		// stored timestamps have second resolution)
		now := time.Now()
		due := now.Sub(created) >= time.Duration(delay)+2*time.Second && now.Sub(last) > g.retryInterval+2*time.Second
		st.Rows = append(st.Rows, row{g.prefix + "|" + a + "|" + b, status, failures, due})
	}
	sort.Slice(st.Rows, func(i, j int) bool { return st.Rows[i].Key < st.Rows[j].Key })
	return st
}

type request struct {
	Op      string `json:"op"`
	Kind    string `json:"kind"`
	A       string `json:"a"` // namespace | tag
	B       string `json:"b"` // name | destination
	DelayMs int    `json:"delay_ms"`
	Open    bool   `json:"open"`
	Pct     int    `json:"pct"`
	N       int    `json:"n"`
}

func main() {
	dir := flag.String("dir", "", "state directory")
	seed := flag.Int64("seed", 1, "fault PRNG seed")
	faultPct := flag.Int("fault-pct", 0, "share of failing attempts")
	gate := flag.String("gate", "open", "open|closed")
	slowMs := flag.Int("slow-ms", 0, "executor delay")
	inBuf := flag.Int("in-buf", 2, "")
	retryBuf := flag.Int("retry-buf", 2, "")
	inW := flag.Int("in-workers", 1, "")
	retryW := flag.Int("retry-workers", 1, "")
	pollMs := flag.Int("poll-ms", 20, "")
	retryMs := flag.Int("retry-ms", 30, "")
	flag.Parse()

	zc := zap.NewProductionConfig()
	zc.OutputPaths = []string{}
	zc.ErrorOutputPaths = []string{}
	log.ConfigureLogger(zc)

	must(os.MkdirAll(*dir, 0o755), "mkdir")
	db, err := localdb.New(localdb.Config{Source: filepath.Join(*dir, "db", "kraken.db")})
	must(err, "localdb")

	logPath := filepath.Join(*dir, "attempts.log")
	attempts := map[string]int{}
	if b, err := os.ReadFile(logPath); err == nil {
		for _, l := range strings.Split(string(b), "\n") {
			f := strings.Fields(l)
			if len(f) >= 3 && f[0] == "S" {
				attempts[f[1]]++
			}
		}
	}
	logf, err := os.OpenFile(logPath, os.O_CREATE|os.O_WRONLY|os.O_APPEND, 0o644)
	must(err, "attempts log")

	cfg := persistedretry.Config{
		IncomingBuffer: *inBuf, RetryBuffer: *retryBuf,
		NumIncomingWorkers: *inW, NumRetryWorkers: *retryW,
		MaxTaskThroughput:   time.Millisecond,
		RetryInterval:       time.Duration(*retryMs) * time.Millisecond,
		PollRetriesInterval: time.Duration(*pollMs) * time.Millisecond,
	}
	newExec := func(name string) *scriptExec {
		e := &scriptExec{name: name, seed: *seed, logf: logf, slow: time.Duration(*slowMs) * time.Millisecond,
			gateOpen: *gate == "open", faultPct: *faultPct, attempts: attempts, inflight: map[string]int{}}
		e.cond = sync.NewCond(&e.mu)
		return e
	}
	// the two executors share the attempts map only by key prefix (wb|, tr|);
	// give each its own map to keep them independent
	wbExec := newExec("writeback")
	trExec := newExec("tagreplication")
	wbExec.attempts, trExec.attempts = map[string]int{}, map[string]int{}
	for k, v := range attempts {
		if strings.HasPrefix(k, "wb|") {
			wbExec.attempts[k] = v
		} else {
			trExec.attempts[k] = v
		}
	}

	wbStore := writeback.NewStore(db)
	remotes, err := tagreplication.RemotesConfig{"remote-a:80": {".*"}, "remote-b:80": {".*"}}.Build()
	must(err, "remotes")
	trStore, err := tagreplication.NewStore(db, remotes)
	must(err, "tagreplication store")

	wbCS := &countingStore{Store: wbStore}
	wbm, err := persistedretry.NewManager(cfg, tally.NoopScope, wbCS, wbExec)
	must(err, "writeback manager")
	wb := &mgr{wbm, db, wbQuery, "wb", wbExec, wbCS, cfg.RetryInterval}
	wbStart := wb.state() // immediately after the constructor returned
	trCS := &countingStore{Store: trStore}
	trm, err := persistedretry.NewManager(cfg, tally.NoopScope, trCS, trExec)
	must(err, "tagreplication manager")
	tr := &mgr{trm, db, trQuery, "tr", trExec, trCS, cfg.RetryInterval}
	trStart := tr.state()

	out := bufio.NewWriter(os.Stdout)
	reply := func(v interface{}) {
		b, _ := json.Marshal(v)
		out.Write(b)
		out.WriteByte('\n')
		out.Flush()
	}
	reply(map[string]interface{}{"ready": true, "wb": wbStart, "tr": trStart})

	sc := bufio.NewScanner(os.Stdin)
	sc.Buffer(make([]byte, 1<<20), 1<<24)
	for sc.Scan() {
		var rq request
		if err := json.Unmarshal(sc.Bytes(), &rq); err != nil {
			reply(map[string]interface{}{"ok": false, "err": "bad request: " + err.Error()})
			continue
		}
		switch rq.Op {
		case "add":
			var err error
			delay := time.Duration(rq.DelayMs) * time.Millisecond
			if rq.Kind == "wb" {
				err = wbm.Add(writeback.NewTask(rq.A, rq.B, delay))
			} else {
				d, derr := core.NewSHA256DigestFromHex(strings.Repeat("ab", 32))
				must(derr, "digest")
				err = trm.Add(tagreplication.NewTask(rq.A, d, core.DigestList{d}, rq.B, delay))
			}
			if err != nil {
				reply(map[string]interface{}{"ok": false, "err": err.Error()})
			} else {
				reply(map[string]interface{}{"ok": true})
			}
		case "addmany":
			// n Adds in a row (large backlogs): wb -> (a, "<b>-<i>"), tr -> ("<a>:<i>", b)
			var failed []int
			firstErr := ""
			for i := 0; i < rq.N; i++ {
				var err error
				if rq.Kind == "wb" {
					err = wbm.Add(writeback.NewTask(rq.A, fmt.Sprintf("%s-%d", rq.B, i), 0))
				} else {
					d, derr := core.NewSHA256DigestFromHex(strings.Repeat("ab", 32))
					must(derr, "digest")
					err = trm.Add(tagreplication.NewTask(fmt.Sprintf("%s:%d", rq.A, i), d, core.DigestList{d}, rq.B, 0))
				}
				if err != nil {
					failed = append(failed, i)
					if firstErr == "" {
						firstErr = err.Error()
					}
				}
			}
			reply(map[string]interface{}{"ok": true, "failed": failed, "err": firstErr})
		case "gate":
			for _, e := range []*scriptExec{wbExec, trExec} {
				e.mu.Lock()
				e.gateOpen = rq.Open
				e.cond.Broadcast()
				e.mu.Unlock()
			}
			reply(map[string]interface{}{"ok": true})
		case "faults":
			for _, e := range []*scriptExec{wbExec, trExec} {
				e.mu.Lock()
				e.faultPct = rq.Pct
				e.mu.Unlock()
			}
			reply(map[string]interface{}{"ok": true})
		case "dump":
			reply(map[string]interface{}{"ok": true, "wb": wb.state(), "tr": tr.state()})
		case "close":
			// open the gate so that workers can finish, then stop both managers
			for _, e := range []*scriptExec{wbExec, trExec} {
				e.mu.Lock()
				e.gateOpen = true
				e.cond.Broadcast()
				e.mu.Unlock()
			}
			wbm.Close()
			trm.Close()
			reply(map[string]interface{}{"ok": true, "wb": wb.state(), "tr": tr.state()})
			os.Exit(0)
		default:
			reply(map[string]interface{}{"ok": false, "err": "unknown op"})
		}
	}
}
