//go:build !race

package c30

const raceEnabled = false
