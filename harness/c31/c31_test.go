// C31: an acknowledged origin upload reaches the backend before local deletion.
//
// kill-restart engine + conservation oracle. A child process (cmd/c31origin,
// built from /repo's working tree) is a real origin: blob server + CAStore
// (LRU capacity 2-4, cleanup TTI/TTL judged by a mock clock the parent advances)
// + write-back manager/executor on the real sqlite store + backend.Manager with
// the real testfs client. The testfs-protocol server lives in the parent
// (in memory), survives kills and injects outages (down / flaky) per request.
//
// The parent uploads blobs with the real blobclient (start/patch/commit,
// re-uploads of existing digests -> conflict path, duplicate uploads with a
// write-back delay), records acknowledgements and interleaves backend outages,
// clock advances, cleanup passes, forced cleanups (ttl_hr=0 and huge), LRU
// pressure, SIGKILLs (immediate and on entry to the N-th write-type syscall via
// an attached strace) and restarts.
//
// Oracle (conservation), after every step, kill and restart: for every
// acknowledged digest the backend has the exact bytes or the origin's cache
// directory still has the exact bytes. Final: with the backend healthy every
// acknowledged digest reaches the backend within a bounded window (expiry is
// inconclusive).
package c31

import (
	"bytes"
	"context"
	"crypto/sha256"
	"database/sql"
	"encoding/hex"
	"encoding/json"
	"fmt"
	"io"
	"math/rand"
	"net"
	"net/http"
	"os"
	"path/filepath"
	"sort"
	"strings"
	"sync"
	"testing"
	"time"

	_ "github.com/mattn/go-sqlite3"

	"github.com/uber/kraken/core"
	"github.com/uber/kraken/origin/blobclient"

	"verif/harness/internal/ev"
	"verif/harness/internal/proc"
)

// ---------------------------------------------------------------------------
// the backend (testfs protocol) in the parent

type backendSrv struct {
	mu     sync.Mutex
	files  map[string][]byte
	mode   string // up | down | flaky
	r      *rand.Rand
	l      net.Listener
	counts map[string]int
}

func newBackend(seed int64) (*backendSrv, error) {
	l, err := net.Listen("tcp", "127.0.0.1:0")
	if err != nil {
		return nil, err
	}
	b := &backendSrv{files: map[string][]byte{}, mode: "up", r: rand.New(rand.NewSource(seed)), l: l, counts: map[string]int{}}
	go func() { _ = http.Serve(l, b) }()
	return b, nil
}

func (b *backendSrv) addr() string { return b.l.Addr().String() }
func (b *backendSrv) close()       { _ = b.l.Close() }

func (b *backendSrv) setMode(m string) {
	b.mu.Lock()
	b.mode = m
	b.mu.Unlock()
}

func (b *backendSrv) failing() bool {
	switch b.mode {
	case "down":
		return true
	case "flaky":
		return b.r.Intn(2) == 0
	}
	return false
}

func (b *backendSrv) ServeHTTP(w http.ResponseWriter, r *http.Request) {
	var body []byte
	if r.Method == "POST" {
		var err error
		body, err = io.ReadAll(r.Body)
		if err != nil {
			// uploads are all-or-nothing: a body cut short (origin killed while
			// sending) stores nothing
			b.mu.Lock()
			b.counts["POST_aborted"]++
			b.mu.Unlock()
			w.WriteHeader(http.StatusBadRequest)
			return
		}
	}
	b.mu.Lock()
	defer b.mu.Unlock()
	switch {
	case r.URL.Path == "/health":
		_, _ = w.Write([]byte("OK"))
	case strings.HasPrefix(r.URL.Path, "/files/"):
		name := strings.TrimPrefix(r.URL.Path, "/files/")
		if b.failing() {
			b.counts[r.Method+"_503"]++
			w.WriteHeader(http.StatusServiceUnavailable)
			return
		}
		switch r.Method {
		case "HEAD":
			v, ok := b.files[name]
			if !ok {
				b.counts["HEAD_404"]++
				w.WriteHeader(http.StatusNotFound)
				return
			}
			b.counts["HEAD_200"]++
			w.Header().Set("Size", fmt.Sprint(len(v)))
		case "GET":
			v, ok := b.files[name]
			if !ok {
				w.WriteHeader(http.StatusNotFound)
				return
			}
			b.counts["GET_200"]++
			_, _ = w.Write(v)
		case "POST":
			b.counts["POST_200"]++
			b.files[name] = body
		}
	case strings.HasPrefix(r.URL.Path, "/list/"):
		prefix := strings.TrimPrefix(r.URL.Path, "/list/")
		var names []string
		for k := range b.files {
			if strings.HasPrefix(k, prefix) {
				names = append(names, k)
			}
		}
		sort.Strings(names)
		_ = json.NewEncoder(w).Encode(names)
	default:
		w.WriteHeader(http.StatusNotFound)
	}
}

// has reports whether some stored object for hex has exactly content.
func (b *backendSrv) has(hexd string, content []byte) bool {
	b.mu.Lock()
	defer b.mu.Unlock()
	for k, v := range b.files {
		if strings.Contains(k, hexd) && bytes.Equal(v, content) {
			return true
		}
	}
	return false
}

// ---------------------------------------------------------------------------
// scripts

type op struct {
	Op      string `json:"op"` // upload | reupload | dupupload | backend | advance | cleanup | forcecleanup | sleep | kill | download
	Blob    int    `json:"blob,omitempty"`
	NS      string `json:"ns,omitempty"`
	DelayMs int    `json:"delay_ms,omitempty"`
	Mode    string `json:"mode,omitempty"`
	Target  string `json:"target,omitempty"` // backend op: a | b | both
	Hours   int    `json:"hours,omitempty"`
	TTLHr   int    `json:"ttl_hr,omitempty"`
	When    int    `json:"when,omitempty"` // kill: 0 = SIGKILL now, >0 = attach strace, kill on the N-th write-type syscall of a thread
	Ms      int    `json:"ms,omitempty"`
}

type script struct {
	ID       string `json:"id"`
	Capacity int    `json:"capacity"`
	TwoRing  bool   `json:"two_member_ring"`
	Ops      []op   `json:"ops"`
}

// namespaces a/... are served by backend A, everything else by backend B
var namespaces = []string{"a/app", "a/svc", "b/app", "x"}

func backendOf(ns string) string {
	if strings.HasPrefix(ns, "a/") {
		return "a"
	}
	return "b"
}

const longDelayMs = 3600 * 1000 // a duplicate upload whose write-back is not due during the whole script

func genScript(r *rand.Rand, id string, quick bool) script {
	s := script{ID: id, Capacity: 2 + r.Intn(3), TwoRing: r.Intn(2) == 0}
	n := 25 + r.Intn(20)
	if !quick {
		n = 30 + r.Intn(40)
	}
	blobs := 0
	modes := []string{"up", "down", "flaky"}
	targets := []string{"a", "b", "both"}
	s.Ops = append(s.Ops, op{Op: "backend", Target: "both", Mode: []string{"up", "down", "flaky", "down"}[r.Intn(4)]})
	directed := 0
	for i := 0; i < n; i++ {
		// directed sub-sequences (each script gets both kinds at PRNG-chosen places)
		if directed < 2 && (r.Intn(12) == 0 || i == n-2-directed) {
			if directed == 0 {
				// same digest under two namespaces served by different backends, one backend down:
				// the second commit takes the upload-conflict path
				down, up := "a", "b"
				if r.Intn(2) == 0 {
					down, up = "b", "a"
				}
				nsOf := map[string][]string{"a": {"a/app", "a/svc"}, "b": {"b/app", "x"}}
				blobs++
				first, second := down, up
				if r.Intn(2) == 0 {
					first, second = up, down
				}
				s.Ops = append(s.Ops,
					op{Op: "backend", Target: up, Mode: "up"}, op{Op: "backend", Target: down, Mode: "down"},
					op{Op: "upload", Blob: blobs, NS: nsOf[first][r.Intn(2)]},
					op{Op: "reupload", Blob: blobs, NS: nsOf[second][r.Intn(2)]},
					op{Op: "sleep", Ms: 120},
					op{Op: "kill"})
			} else {
				// duplicate commit whose write-back is delayed, then a forced cleanup before the delay elapsed
				blobs++
				s.Ops = append(s.Ops,
					op{Op: "backend", Target: "both", Mode: []string{"up", "up", "down"}[r.Intn(3)]},
					op{Op: "dupupload", Blob: blobs, NS: namespaces[r.Intn(len(namespaces))], DelayMs: longDelayMs},
					op{Op: "sleep", Ms: 40},
					op{Op: "forcecleanup", TTLHr: 0},
					op{Op: "advance", Hours: 3},
					op{Op: "cleanup"})
			}
			directed++
			continue
		}
		switch x := r.Intn(100); {
		case x < 6:
			// LRU pressure: several new blobs back to back
			for k := 3 + r.Intn(4); k > 0; k-- {
				blobs++
				s.Ops = append(s.Ops, op{Op: "upload", Blob: blobs, NS: namespaces[r.Intn(len(namespaces))]})
			}
		case x < 28:
			blobs++
			s.Ops = append(s.Ops, op{Op: "upload", Blob: blobs, NS: namespaces[r.Intn(len(namespaces))]})
		case x < 36 && blobs > 0:
			s.Ops = append(s.Ops, op{Op: "reupload", Blob: 1 + r.Intn(blobs), NS: namespaces[r.Intn(len(namespaces))]})
		case x < 42:
			blobs++
			s.Ops = append(s.Ops, op{Op: "dupupload", Blob: blobs, NS: namespaces[r.Intn(len(namespaces))], DelayMs: []int{0, 30, 80, longDelayMs}[r.Intn(4)]})
		case x < 52:
			s.Ops = append(s.Ops, op{Op: "backend", Target: targets[r.Intn(3)], Mode: modes[r.Intn(3)]})
		case x < 60:
			s.Ops = append(s.Ops, op{Op: "advance", Hours: []int{1, 3, 10}[r.Intn(3)]})
		case x < 70:
			s.Ops = append(s.Ops, op{Op: "cleanup"})
		case x < 80:
			s.Ops = append(s.Ops, op{Op: "forcecleanup", TTLHr: []int{0, 0, 100000}[r.Intn(3)]})
		case x < 86:
			s.Ops = append(s.Ops, op{Op: "sleep", Ms: []int{10, 40, 120}[r.Intn(3)]})
		case x < 94:
			o := op{Op: "kill"}
			if r.Intn(2) == 0 {
				o.When = 1 + r.Intn(25)
			}
			s.Ops = append(s.Ops, o)
		default:
			if blobs > 0 {
				s.Ops = append(s.Ops, op{Op: "download", Blob: 1 + r.Intn(blobs), NS: namespaces[r.Intn(len(namespaces))]})
			}
		}
	}
	return s
}

// ---------------------------------------------------------------------------
// running one script

type blobT struct {
	content []byte
	hex     string
	d       core.Digest
}

type runner struct {
	run   *ev.Run
	bin   string
	dir   string
	sc    script
	seed  int64
	bes   map[string]*backendSrv // "a", "b"
	r     *rand.Rand
	blobs map[int]*blobT

	child     *proc.Child
	addr      string
	client    *blobclient.HTTPClient
	waitTrace func()

	acked    map[string]*blobT // "<backend>|<hex>" -> blob: the digest was acknowledged under a namespace of that backend
	ackNS    map[string]map[string]bool // "<backend>|<hex>" -> namespaces under which the commit was acknowledged
	longDel  bool              // a long-delay duplicate upload was acknowledged
	lost     map[string]bool
	taskGone map[string]bool
	seenAt   map[string]float64 // unix time of the last check that found the exact bytes in the cache directory
	flagSeen map[string]bool   // _persist observed "true" at some check after the ack
	flagPrev map[string]string // _persist content at the previous check
	history  []string
	lives    int
	killsUnw int // kills while an acked blob was not yet in the backend
	delUnw   int // deletion-path ops while an acked blob was not yet in the backend
}

func (r *runner) note(f string, a ...interface{}) {
	if len(r.history) < 300 {
		r.history = append(r.history, fmt.Sprintf(f, a...))
	}
}

func (r *runner) blob(i int) *blobT {
	if b, ok := r.blobs[i]; ok {
		return b
	}
	n := 1 + r.r.Intn(3000)
	c := make([]byte, n)
	r.r.Read(c)
	h := sha256.Sum256(c)
	hx := hex.EncodeToString(h[:])
	d, _ := core.NewSHA256DigestFromHex(hx)
	b := &blobT{c, hx, d}
	r.blobs[i] = b
	return b
}

func (r *runner) cachePath(hx string) string {
	return filepath.Join(r.dir, "cache", hx[0:2], hx[2:4], hx, "data")
}

func (r *runner) unwritten() []string {
	var out []string
	for key, b := range r.acked {
		if !r.lost[key] && !r.bes[key[:1]].has(b.hex, b.content) {
			out = append(out, key)
		}
	}
	sort.Strings(out)
	return out
}

// conserve is the oracle: cache first, then backend (blobs only ever move from
// the cache to the backend).
func (r *runner) conserve(after string, stepKind string) {
	var keys []string
	for key := range r.acked {
		keys = append(keys, key)
	}
	sort.Strings(keys)
	for _, key := range keys {
		if r.lost[key] {
			continue
		}
		b := r.acked[key]
		hx := b.hex
		got, err := os.ReadFile(r.cachePath(hx))
		inCache := err == nil && bytes.Equal(got, b.content)
		if inCache {
			r.seenAt[hx] = float64(time.Now().UnixNano()) / 1e9
		}
		if inCache || r.bes[key[:1]].has(hx, b.content) {
			continue
		}
		r.lost[key] = true
		cacheState := "absent"
		if err == nil {
			cacheState = fmt.Sprintf("present with different bytes (%d instead of %d)", len(got), len(b.content))
		}
		// classify by what protected the blob before it vanished
		class := ""
		var quotes []string
		// The origin's own error log: a "writeback cache file missing" claim for this
		// digest is FALSE when the file demonstrably existed at that moment, i.e. the
		// parent still found it on disk afterwards, or an LRU eviction had just refused
		// to delete it because it was persisted.
		if ls, _ := filepath.Glob(filepath.Join(r.dir, "origin-errors.*.log")); len(ls) > 0 {
			type rec struct {
				TS  float64 `json:"ts"`
				Msg string  `json:"msg"`
			}
			for _, lf := range ls {
				lb, _ := os.ReadFile(lf)
				var refusals []float64
				var refusalLines []string
				for _, line := range strings.Split(string(lb), "\n") {
					if !strings.Contains(line, hx) {
						continue
					}
					var x rec
					if json.Unmarshal([]byte(line), &x) != nil || x.TS == 0 {
						continue
					}
					switch {
					case strings.Contains(x.Msg, "Error deleting evicted entry: file is persisted"):
						refusals = append(refusals, x.TS)
						refusalLines = append(refusalLines, line)
					case strings.Contains(x.Msg, "writeback cache file missing"):
						if x.TS < r.seenAt[hx] {
							quotes = append(quotes, line)
							continue
						}
						for i, te := range refusals {
							if x.TS >= te && x.TS-te < 2 {
								quotes = append(quotes, refusalLines[i], line)
								break
							}
						}
					}
				}
			}
		}
		otherBk := map[string]string{"a": "b", "b": "a"}[key[:1]]
		mech := r.otherNamespaceWriteback(key[:1], hx)
		switch {
		case len(mech) > 0 && r.bes[otherBk].has(hx, b.content):
			// the origin's own log shows, in this order: the commit for a namespace of THIS
			// backend starting its write-back (it sets the persist flag right after that
			// line), then a write-back of the same digest for a namespace of the OTHER
			// backend completing (the executor clears the per-file flag right before that
			// line) - and the other backend indeed has the bytes
			class = "persist-flag-cleared-by-writeback-for-other-namespace"
			quotes = mech
		case len(quotes) > 0:
			// the executor dropped the task (and cleared the persist flag) claiming the
			// file was missing at a time after which the parent still found it on disk
			class = "writeback-task-dropped-file-reported-missing"
		case r.flagPrev[hx] == "true":
			class = "persisted-blob-deleted/after-" + stepKind
		case !r.flagSeen[hx]:
			class = "not-protected-after-ack/after-" + stepKind
		default:
			class = "persist-flag-cleared-before-writeback/after-" + stepKind
		}
		r.run.Violation("acked-blob-lost/"+class, r.sc.ID, map[string]interface{}{
			"script": r.sc, "digest": hx, "size": len(b.content), "observed_after": after, "cache_file": cacheState,
			"persist_flag_at_previous_check": r.flagPrev[hx], "persist_flag_ever_seen_true": r.flagSeen[hx],
			"origin_error_log_lines_about_digest": quotes, "history": r.history,
			"backend_of_the_acknowledged_namespace": key[:1], "backend_modes": map[string]string{"a": r.bes["a"].mode, "b": r.bes["b"].mode},
			"other_backend_has_the_bytes": r.bes[map[string]string{"a": "b", "b": "a"}[key[:1]]].has(hx, b.content),
			"why": "the upload commit was acknowledged under a namespace of this backend; that backend does not have the bytes and the origin's cache directory does not have them either",
		})
	}
	// remember the protection state of every blob that still depends on the cache
	for _, key := range keys {
		if r.lost[key] {
			continue
		}
		hx := r.acked[key].hex
		pb, err := os.ReadFile(filepath.Join(filepath.Dir(r.cachePath(hx)), "_persist"))
		st := "absent"
		if err == nil {
			st = string(pb)
		}
		r.flagPrev[hx] = st
		if st == "true" {
			r.flagSeen[hx] = true
		}
	}
	r.run.Count("conservation_checks", 1)
}

// otherNamespaceWriteback looks in the origin's log files for the mechanism of
// the known per-file persist flag defect: a "Starting write-back process" line
// for digest hx under a namespace of backend bk, followed later by a
// "Successfully completed writeback task" line for hx under a namespace of the
// other backend. It returns the two lines, or nil.
func (r *runner) otherNamespaceWriteback(bk, hx string) []string {
	type rec struct {
		TS        float64 `json:"ts"`
		Msg       string  `json:"msg"`
		Namespace string  `json:"namespace"`
		Digest    string  `json:"digest"`
		Name      string  `json:"name"`
	}
	type file struct {
		first float64
		lines []string
		recs  []rec
	}
	var files []file
	ls, _ := filepath.Glob(filepath.Join(r.dir, "origin-errors.*.log"))
	for _, lf := range ls {
		lb, _ := os.ReadFile(lf)
		var f file
		for _, line := range strings.Split(string(lb), "\n") {
			if !strings.Contains(line, hx) {
				continue
			}
			var x rec
			if json.Unmarshal([]byte(line), &x) != nil || x.TS == 0 {
				continue
			}
			if f.first == 0 {
				f.first = x.TS
			}
			f.lines = append(f.lines, line)
			f.recs = append(f.recs, x)
		}
		if len(f.recs) > 0 {
			files = append(files, f)
		}
	}
	sort.Slice(files, func(i, j int) bool { return files[i].first < files[j].first }) // process lives do not overlap
	// the completion must come after the LAST commit of this backend's namespaces
	// (a later commit sets the flag again)
	start, done := "", ""
	for _, f := range files {
		for i, x := range f.recs {
			switch {
			case x.Msg == "Starting write-back process" && x.Digest == hx && backendOf(x.Namespace) == bk:
				start, done = f.lines[i], ""
			case x.Msg == "Successfully completed writeback task" && x.Name == hx && backendOf(x.Namespace) != bk && start != "" && done == "":
				done = f.lines[i]
			}
		}
	}
	if start != "" && done != "" {
		return []string{start, done}
	}
	return nil
}

// checkTasks runs at restart points (origin dead): every acknowledged digest
// that has not reached its backend must still have a write-back task row for one
// of the namespaces it was acknowledged under (a task leaves the store only after
// ITS write-back happened).
func (r *runner) checkTasks(where string) {
	p := filepath.Join(r.dir, "db", "kraken.db")
	if _, err := os.Stat(p); err != nil {
		return
	}
	db, err := sql.Open("sqlite3", p)
	if err != nil {
		return
	}
	defer db.Close()
	rs, err := db.Query("SELECT namespace, name FROM writeback_task")
	if err != nil {
		if !strings.Contains(err.Error(), "no such table") {
			r.run.Inconclusive(r.sc.ID + ": reading write-back tasks at a restart point: " + err.Error())
		}
		return
	}
	rows := map[string]bool{}
	var all []string
	for rs.Next() {
		var ns, name string
		if rs.Scan(&ns, &name) == nil {
			rows[ns+"|"+name] = true
			all = append(all, ns+"|"+name[:min(8, len(name))])
		}
	}
	rs.Close()
	r.run.Count("restart_point_task_checks", 1)
	var keys []string
	for key := range r.acked {
		keys = append(keys, key)
	}
	sort.Strings(keys)
	for _, key := range keys {
		b := r.acked[key]
		if r.lost[key] || r.taskGone[key] || r.bes[key[:1]].has(b.hex, b.content) {
			continue
		}
		found := false
		for ns := range r.ackNS[key] {
			if rows[ns+"|"+b.hex] {
				found = true
			}
		}
		if found {
			continue
		}
		r.taskGone[key] = true
		var nss []string
		for ns := range r.ackNS[key] {
			nss = append(nss, ns)
		}
		sort.Strings(nss)
		r.run.Violation("writeback-task-missing-for-unwritten-blob", r.sc.ID, map[string]interface{}{
			"script": r.sc, "digest": b.hex, "acknowledged_under": nss, "backend": key[:1], "observed_at": where,
			"task_rows_in_store": all, "history": r.history,
			"why": "the commit was acknowledged under these namespaces, their backend does not have the bytes, and no write-back task for any of them is left in the store: nothing will ever write the blob back",
		})
	}
}

const killSet = "write,pwrite64,fsync,fdatasync,unlink,unlinkat,ftruncate,rename,renameat,mkdirat,linkat"

func (r *runner) start() error {
	args := []string{"-dir", r.dir, "-backend-a", r.bes["a"].addr(), "-backend-b", r.bes["b"].addr(), "-capacity", fmt.Sprint(r.sc.Capacity)}
	if r.sc.TwoRing {
		args = append(args, "-other-origin", "127.0.0.1:1")
	}
	ch, err := proc.Start(proc.Opts{Dir: r.dir}, r.bin, args...)
	if err != nil {
		return err
	}
	var hello struct {
		Ready bool   `json:"ready"`
		Addr  string `json:"addr"`
	}
	if err := ch.Recv(&hello, 90*time.Second); err != nil {
		s := ch.Stderr()
		ch.Kill()
		return fmt.Errorf("child did not become ready: %v %s", err, s[max(0, len(s)-400):])
	}
	r.child, r.addr = ch, hello.Addr
	r.client = blobclient.New(hello.Addr, blobclient.WithChunkSize(1024))
	r.waitTrace = func() {}
	r.lives++
	r.run.Count("origin_process_lives", 1)
	return nil
}

func (r *runner) kill(kind string) {
	if len(r.unwritten()) > 0 {
		r.killsUnw++
	}
	r.child.Kill()
	r.waitTrace()
	r.run.Count("kills_"+kind, 1)
	r.note("origin killed (%s)", kind)
}

func (r *runner) ctl(req map[string]interface{}) (ok bool, alive bool) {
	var rep struct {
		OK  bool   `json:"ok"`
		Err string `json:"err"`
	}
	if err := r.child.Call(req, &rep, 60*time.Second); err != nil {
		if err == proc.ErrTimeout {
			r.run.Inconclusive(fmt.Sprintf("%s: origin did not answer %v", r.sc.ID, req))
		}
		return false, false
	}
	if !rep.OK {
		r.note("control %v failed: %s", req["op"], rep.Err)
	}
	return rep.OK, true
}

func (r *runner) upload(o op, kind string) {
	b := r.blob(o.Blob)
	ctx, cancel := context.WithTimeout(context.Background(), 60*time.Second)
	defer cancel()
	var err error
	if kind == "dupupload" {
		err = r.client.DuplicateUploadBlob(o.NS, b.d, bytes.NewReader(b.content), uint64(len(b.content)), time.Duration(o.DelayMs)*time.Millisecond)
	} else {
		err = r.client.UploadBlob(ctx, o.NS, b.d, bytes.NewReader(b.content), uint64(len(b.content)))
	}
	if err != nil {
		r.run.Count("uploads_not_acknowledged", 1)
		r.note("%s blob %d (%s) ns=%s NOT acked: %.80s", kind, o.Blob, b.hex[:8], o.NS, err.Error())
		return
	}
	r.acked[backendOf(o.NS)+"|"+b.hex] = b
	if r.ackNS[backendOf(o.NS)+"|"+b.hex] == nil {
		r.ackNS[backendOf(o.NS)+"|"+b.hex] = map[string]bool{}
	}
	r.ackNS[backendOf(o.NS)+"|"+b.hex][o.NS] = true
	if kind == "dupupload" && o.DelayMs >= longDelayMs {
		r.longDel = true
		r.run.Count("uploads_acknowledged_dupupload_long_delay", 1)
	}
	r.run.Count("uploads_acknowledged_"+kind, 1)
	r.note("%s blob %d (%s) ns=%s acked", kind, o.Blob, b.hex[:8], o.NS)
}

func (r *runner) forceCleanup(ttlHr int) {
	c := &http.Client{Timeout: 120 * time.Second}
	resp, err := c.Post(fmt.Sprintf("http://%s/forcecleanup?ttl_hr=%d", r.addr, ttlHr), "", nil)
	if err != nil {
		r.note("forcecleanup ttl_hr=%d: %.80s", ttlHr, err.Error())
		return
	}
	defer resp.Body.Close()
	var out struct {
		Deleted []string `json:"deleted"`
		Errors  []string `json:"errors"`
	}
	_ = json.NewDecoder(resp.Body).Decode(&out)
	r.run.Count("forcecleanup_deleted_blobs", int64(len(out.Deleted)))
	r.run.Count("forcecleanup_refused_blobs", int64(len(out.Errors)))
	r.note("forcecleanup ttl_hr=%d: status %d, deleted %d, refused %d", ttlHr, resp.StatusCode, len(out.Deleted), len(out.Errors))
}

// execute returns a non-empty reason when the bounded progress window expired.
func (r *runner) execute() (expired string, pending []string) {
	run := r.run
	if err := r.start(); err != nil {
		run.Inconclusive(r.sc.ID + ": " + err.Error())
		return "", nil
	}
	defer func() {
		if r.child != nil && !r.child.Exited() {
			r.child.Kill()
		}
		r.waitTrace()
	}()
	for i, o := range r.sc.Ops {
		if r.child.Exited() {
			// the attached strace killed it during an earlier step
			r.kill("by_syscall_injection")
			r.conserve(fmt.Sprintf("op %d: kill by syscall injection", i), "kill")
			r.checkTasks(fmt.Sprintf("restart point before op %d", i))
			if err := r.start(); err != nil {
				run.Inconclusive(r.sc.ID + ": " + err.Error())
				return "", nil
			}
			r.conserve(fmt.Sprintf("op %d: restart", i), "restart")
		}
		step := o.Op
		switch o.Op {
		case "upload", "reupload", "dupupload":
			if len(r.unwritten()) > 0 {
				r.delUnw++ // LRU pressure with unwritten blobs present
			}
			r.upload(o, o.Op)
		case "backend":
			for _, t := range []string{"a", "b"} {
				if o.Target == t || o.Target == "both" || o.Target == "" {
					r.bes[t].setMode(o.Mode)
				}
			}
			r.note("backend %s -> %s", o.Target, o.Mode)
		case "advance":
			r.ctl(map[string]interface{}{"op": "advance", "seconds": o.Hours * 3600})
			r.note("clock +%dh", o.Hours)
		case "cleanup":
			if len(r.unwritten()) > 0 {
				r.delUnw++
			}
			if ok, _ := r.ctl(map[string]interface{}{"op": "cleanup"}); ok {
				run.Count("cleanup_passes", 1)
			}
			r.note("cleanup pass")
		case "forcecleanup":
			if len(r.unwritten()) > 0 {
				r.delUnw++
			}
			r.forceCleanup(o.TTLHr)
			run.Count("forcecleanups", 1)
		case "sleep":
			time.Sleep(time.Duration(o.Ms) * time.Millisecond)
		case "download":
			b := r.blob(o.Blob)
			ctx, cancel := context.WithTimeout(context.Background(), 30*time.Second)
			var buf bytes.Buffer
			err := r.client.DownloadBlob(ctx, o.NS, b.d, &buf)
			cancel()
			if err == nil {
				run.Count("downloads_ok", 1)
			}
		case "kill":
			if o.When == 0 {
				r.kill("sigkill_now")
				r.conserve(fmt.Sprintf("op %d: kill", i), "kill")
				r.checkTasks(fmt.Sprintf("restart point at op %d", i))
				if err := r.start(); err != nil {
					run.Inconclusive(r.sc.ID + ": " + err.Error())
					return "", nil
				}
				step = "restart"
			} else {
				w, err := proc.AttachInject(r.child.Pid(), killSet, o.When, filepath.Join(r.dir, fmt.Sprintf("attach-%d.log", i)))
				if err != nil {
					run.Inconclusive(r.sc.ID + ": strace attach: " + err.Error())
				} else {
					prev := r.waitTrace
					r.waitTrace = func() { prev(); w() }
					r.note("strace attached: kill on syscall #%d of a thread", o.When)
				}
				step = "arm-kill"
			}
		}
		r.conserve(fmt.Sprintf("op %d: %s", i, ev.JSON(o)), step)
	}

	// final phase: healthy backends, bounded progress
	r.bes["a"].setMode("up")
	r.bes["b"].setMode("up")
	if r.child.Exited() {
		r.kill("by_syscall_injection")
		r.conserve("final: kill by syscall injection", "kill")
		if err := r.start(); err != nil {
			run.Inconclusive(r.sc.ID + ": " + err.Error())
			return "", nil
		}
	}
	if r.longDel {
		// write-back tasks with a one-hour delay are not due within the script; a
		// forced cleanup executes them regardless of their delay
		time.Sleep(40 * time.Millisecond)
		r.forceCleanup(0)
		r.conserve("final: forcecleanup ttl_hr=0 for not-yet-due write-backs", "forcecleanup")
	}
	deadline := time.Now().Add(45 * time.Second)
	for round := 1; ; round++ {
		if r.longDel && round%40 == 0 && !r.child.Exited() {
			r.forceCleanup(0) // e.g. after a restart in this phase
		}
		r.conserve("final phase", "final-wait")
		u := r.unwritten()
		if len(u) == 0 {
			break
		}
		if r.child.Exited() {
			r.kill("by_syscall_injection")
			if err := r.start(); err != nil {
				run.Inconclusive(r.sc.ID + ": " + err.Error())
				return "", nil
			}
		}
		if time.Now().After(deadline) {
			// describe what the stuck digests look like (diagnosis only)
			r.child.Kill()
			r.waitTrace()
			rows := map[string][]string{}
			if db, err := sql.Open("sqlite3", filepath.Join(r.dir, "db", "kraken.db")); err == nil {
				if rs, err := db.Query("SELECT namespace, name, status, delay FROM writeback_task"); err == nil {
					for rs.Next() {
						var ns, name, st string
						var delay int64
						if rs.Scan(&ns, &name, &st, &delay) == nil {
							rows[name] = append(rows[name], fmt.Sprintf("%s/%s/delay=%s", ns, st, time.Duration(delay)))
						}
					}
					rs.Close()
				}
				db.Close()
			}
			var desc []string
			for _, key := range u {
				b := r.acked[key]
				idx := -1
				for i, bb := range r.blobs {
					if bb == b {
						idx = i
					}
				}
				_, cerr := os.Stat(r.cachePath(b.hex))
				desc = append(desc, fmt.Sprintf("%s(blob %d, in cache: %v, persist flag: %s, task rows: %v)", key[:10], idx, cerr == nil, r.flagPrev[b.hex], rows[b.hex]))
			}
			return "bounded progress window expired", desc
		}
		time.Sleep(50 * time.Millisecond)
	}
	r.ctl(map[string]interface{}{"op": "quit"})
	return "", nil
}

func runScript(t *testing.T, run *ev.Run, bin, base string, sc script, seed int64) {
	for attempt := 0; attempt < 2; attempt++ {
		dir := filepath.Join(base, fmt.Sprintf("%s-%d", sc.ID, attempt))
		if err := os.MkdirAll(dir, 0o755); err != nil {
			t.Fatal(err)
		}
		bea, err := newBackend(seed)
		if err != nil {
			t.Fatal(err)
		}
		beb, err := newBackend(seed + 7)
		if err != nil {
			t.Fatal(err)
		}
		r := &runner{run: run, bin: bin, dir: dir, sc: sc, seed: seed, bes: map[string]*backendSrv{"a": bea, "b": beb}, r: rand.New(rand.NewSource(seed)),
			blobs: map[int]*blobT{}, acked: map[string]*blobT{}, lost: map[string]bool{}, taskGone: map[string]bool{}, ackNS: map[string]map[string]bool{}, seenAt: map[string]float64{}, flagSeen: map[string]bool{}, flagPrev: map[string]string{}}
		expired, pending := r.execute()
		if attempt == 0 {
			run.Case(ev.JSON(sc), r.killsUnw > 0 && r.delUnw > 0)
			run.Count("kills_with_unwritten_acked_blobs", int64(r.killsUnw))
			run.Count("deletion_path_steps_with_unwritten_acked_blobs", int64(r.delUnw))
			run.Count("acked_digests", int64(len(r.acked)))
			for _, be := range r.bes {
				be.mu.Lock()
				for k, v := range be.counts {
					run.Count("backend_"+k, int64(v))
				}
				be.mu.Unlock()
			}
			if run.WantSample() {
				run.Sample(map[string]interface{}{"script": sc.ID, "capacity": sc.Capacity, "two_member_ring": sc.TwoRing,
					"ops": len(sc.Ops), "acked": len(r.acked), "lives": r.lives, "first_ops": sc.Ops[:min(8, len(sc.Ops))]})
			}
		}
		bea.close()
		beb.close()
		if os.Getenv("C31_KEEP") == "" {
			_ = os.RemoveAll(dir)
		}
		if expired == "" {
			return
		}
		if attempt == 1 {
			run.Inconclusive(fmt.Sprintf("%s: %s twice; acknowledged digests not in the backend: %v", sc.ID, expired, pending))
		} else {
			run.Count("progress_window_expired_first_try", 1)
		}
	}
}

func TestC31(t *testing.T) {
	run := ev.Start(t, "C31", "fault_enumeration",
		"PRNG-generated fault scripts against a real origin process (blob server + CAStore with LRU capacity 2-4 + write-back manager on sqlite + "+
			"two testfs backends selected by namespace, each with its own outage mode; the same digest is also committed under namespaces of both backends "+
			"(conflict path) and duplicate commits carry write-back delays from 0 to 1 h, with a forced cleanup before the delay elapsed): 25-70 steps of uploads through the real blobclient (new blobs, re-uploads of existing digests, duplicate uploads with "+
			"write-back delay), backend mode changes (up/down/flaky), clock advances (1-10 h against TTI 1 h / TTL 2 h), cleanup passes, forced cleanups "+
			"(ttl_hr 0 / 100000), pauses, downloads, and kills (SIGKILL now, or on entry to the N-th write-type syscall via attached strace) followed by "+
			"restarts on the same directory. A script is non-trivial when at least one kill and at least one deletion-path step (cleanup, forced cleanup, "+
			"LRU pressure) happened while an acknowledged blob was not yet in the backend; distinct = distinct scripts.")
	defer run.Finish()
	run.Assume("process-crash model: completed syscalls persist after SIGKILL (no power loss)")
	run.Assume("the two storage backends are in-memory testfs-protocol servers in the parent (all-or-nothing uploads, never loses data); remote clusters are absent; the second ring member, when configured, is unreachable")
	run.Assume("bounded progress (every acknowledged digest reaches the healthy backend) is a watchdog: its expiry is inconclusive")

	bin := proc.Build(t, "./c31/cmd/c31origin", false)
	base := ev.TempDir(t, "c31-")
	n := run.N(10, 120)
	rr := run.Rand("scripts")
	var scripts []script
	for i := 0; i < n; i++ {
		scripts = append(scripts, genScript(rr, fmt.Sprintf("f%d", i), run.Quick()))
	}
	var wg sync.WaitGroup
	sem := make(chan struct{}, 8)
	for i := range scripts {
		if rc := run.ReplayCase(); rc != "" && rc != scripts[i].ID {
			continue
		}
		wg.Add(1)
		go func(i int) {
			defer wg.Done()
			sem <- struct{}{}
			defer func() { <-sem }()
			runScript(t, run, bin, base, scripts[i], run.Seed()*1000+int64(i))
		}(i)
	}
	wg.Wait()
}
