// c31origin is a real kraken origin for the C31 kill-restart monitor: the real
// blob server on a real CAStore (tiny LRU capacity, cleanup TTI/TTL judged by a
// mock clock that the parent advances), the real write-back manager/executor on
// the real sqlite store, and a real backend.Manager whose only backend is the
// real testfs client pointing at a testfs-protocol server that lives in the
// parent (so it survives kills and the parent can inject outages).
//
// Control: JSON lines on stdin, one JSON reply per line on stdout.
package main

import (
	"bufio"
	"encoding/json"
	"flag"
	"fmt"
	"net"
	"net/http"
	"os"
	"path/filepath"
	"sync"
	"time"

	"github.com/andres-erbsen/clock"
	"github.com/c2h5oh/datasize"
	"github.com/uber-go/tally"
	"go.uber.org/zap"
	"go.uber.org/zap/zapcore"

	"github.com/uber/kraken/core"
	"github.com/uber/kraken/lib/backend"
	_ "github.com/uber/kraken/lib/backend/testfs"
	"github.com/uber/kraken/lib/blobrefresh"
	"github.com/uber/kraken/lib/hashring"
	"github.com/uber/kraken/lib/healthcheck"
	"github.com/uber/kraken/lib/hostlist"
	"github.com/uber/kraken/lib/metainfogen"
	"github.com/uber/kraken/lib/persistedretry"
	"github.com/uber/kraken/lib/persistedretry/writeback"
	"github.com/uber/kraken/lib/store"
	"github.com/uber/kraken/localdb"
	"github.com/uber/kraken/origin/blobclient"
	"github.com/uber/kraken/origin/blobserver"
	"github.com/uber/kraken/utils/httputil"
	"github.com/uber/kraken/utils/log"
)

func must(err error, what string) {
	if err != nil {
		fmt.Fprintf(os.Stderr, "c31origin: %s: %v\n", what, err)
		os.Exit(2)
	}
}

type fakeClusterProvider struct{}

func (fakeClusterProvider) Provide(dns string) (blobclient.ClusterClient, error) {
	return nil, fmt.Errorf("no remote clusters in this harness")
}

// keepCore lets errors through and, of the lower levels, only the lines the
// parent's classification needs.
type keepCore struct{ zapcore.Core }

func (k *keepCore) With(f []zapcore.Field) zapcore.Core { return &keepCore{k.Core.With(f)} }

func (k *keepCore) Check(e zapcore.Entry, ce *zapcore.CheckedEntry) *zapcore.CheckedEntry {
	if e.Level >= zapcore.ErrorLevel || e.Message == "Starting write-back process" || e.Message == "Successfully completed writeback task" {
		return ce.AddCore(e, k.Core)
	}
	return ce
}

type request struct {
	Op      string `json:"op"`
	Seconds int64  `json:"seconds"`
}

func main() {
	dir := flag.String("dir", "", "origin state directory")
	backendA := flag.String("backend-a", "", "testfs server (in the parent) for namespaces a/...")
	backendB := flag.String("backend-b", "", "testfs server (in the parent) for every other namespace")
	capacity := flag.Int("capacity", 3, "CAStore LRU capacity (entries)")
	otherOrigin := flag.String("other-origin", "", "a second (unreachable) ring member, or empty")
	ttiSec := flag.Int64("tti-sec", 3600, "cache cleanup TTI")
	ttlSec := flag.Int64("ttl-sec", 7200, "cache cleanup TTL")
	flag.Parse()

	// the origin's own log is kept (file per process) so that the parent can quote
	// what the real code said about a digest it lost: all errors, plus the two
	// debug lines that order "commit set the persist flag" against "a write-back
	// finished and cleared it"
	zc := zap.NewProductionConfig()
	zc.Level = zap.NewAtomicLevelAt(zap.DebugLevel)
	zc.Sampling = nil
	zc.DisableStacktrace = true
	zc.OutputPaths = []string{filepath.Join(*dir, fmt.Sprintf("origin-errors.%d.log", os.Getpid()))}
	zc.ErrorOutputPaths = zc.OutputPaths
	filtered := true
	if lf := os.Getenv("C31_ORIGIN_LOG"); lf != "" {
		zc = zap.NewDevelopmentConfig()
		zc.OutputPaths = []string{fmt.Sprintf("%s.%d", lf, os.Getpid())}
		zc.ErrorOutputPaths = zc.OutputPaths
		filtered = false
	}
	must(os.MkdirAll(*dir, 0o755), "mkdir")
	zl, err := zc.Build(zap.AddCallerSkip(1))
	must(err, "logger")
	if filtered {
		zl = zl.WithOptions(zap.WrapCore(func(c zapcore.Core) zapcore.Core { return &keepCore{c} }))
	}
	log.SetGlobalLogger(zl.Sugar())

	// The clock the store and the blob server see is real time plus an offset the
	// parent advances: file mtimes are real, so a frozen mock would make freshly
	// written files look as if they came from the future.
	clk := clock.NewMock()
	clk.Set(time.Now())
	var clkMu sync.Mutex
	var offset time.Duration
	syncClock := func() {
		clkMu.Lock()
		if t := time.Now().Add(offset); t.After(clk.Now()) {
			clk.Set(t)
		}
		clkMu.Unlock()
	}
	go func() {
		for {
			time.Sleep(5 * time.Millisecond)
			syncClock()
		}
	}()

	cleanup := store.CleanupConfig{
		Disabled: true, // no background passes; the parent triggers them
		TTI:      time.Duration(*ttiSec) * time.Second,
		TTL:      time.Duration(*ttlSec) * time.Second,
	}
	cas, err := store.VerifC31NewCAStore(store.CAStoreConfig{
		UploadDir: filepath.Join(*dir, "upload"), CacheDir: filepath.Join(*dir, "cache"),
		Capacity: *capacity, UploadCleanup: cleanup, CacheCleanup: cleanup,
	}, tally.NoopScope, clk)
	must(err, "ca store")

	db, err := localdb.New(localdb.Config{Source: filepath.Join(*dir, "db", "kraken.db")})
	must(err, "localdb")

	testfsCfg := func(addr string) map[string]interface{} {
		return map[string]interface{}{"testfs": map[string]interface{}{
			"addr": addr, "root": "root", "name_path": "sharded_docker_blob",
		}}
	}
	backends, err := backend.NewManager(backend.ManagerConfig{}, []backend.Config{
		{Namespace: "^a/.*", Backend: testfsCfg(*backendA)},
		{Namespace: ".*", Backend: testfsCfg(*backendB)},
	}, backend.AuthConfig{}, tally.NoopScope)
	must(err, "backend manager")

	wbm, err := persistedretry.NewManager(persistedretry.Config{
		IncomingBuffer: 4, RetryBuffer: 4, NumIncomingWorkers: 2, NumRetryWorkers: 2,
		MaxTaskThroughput: time.Millisecond, RetryInterval: 20 * time.Millisecond, PollRetriesInterval: 15 * time.Millisecond,
		SyncRetryBackoff: httputil.ExponentialBackOffConfig{
			Enabled: true, InitialInterval: 5 * time.Millisecond, Multiplier: 2, MaxInterval: 20 * time.Millisecond, MaxRetries: 2,
		},
	}, tally.NoopScope, writeback.NewStore(db), writeback.NewExecutor(tally.NoopScope, cas, backends))
	must(err, "writeback manager")

	l, err := net.Listen("tcp", "127.0.0.1:0")
	must(err, "listen")
	addr := l.Addr().String()

	members := []string{addr}
	if *otherOrigin != "" {
		members = append(members, *otherOrigin)
	}
	ring := hashring.New(hashring.Config{MaxReplica: 1}, hostlist.Fixture(members...), healthcheck.IdentityFilter{}, tally.NoopScope)
	mg, err := metainfogen.New(metainfogen.Config{
		PieceLengths: map[datasize.ByteSize]datasize.ByteSize{0: 4 * datasize.KB},
	}, cas)
	must(err, "metainfogen")
	br := blobrefresh.New(blobrefresh.Config{}, tally.NoopScope, cas, backends, mg)
	pctx, err := core.NewPeerContext(core.RandomPeerIDFactory, "zone", "cluster", "127.0.0.1", 1, true)
	must(err, "peer context")
	srv, err := blobserver.New(blobserver.Config{}, tally.NoopScope, clk, addr, ring, cas,
		blobclient.NewProvider(), fakeClusterProvider{}, pctx, backends, br, mg, wbm)
	must(err, "blobserver")
	go func() { _ = http.Serve(l, srv.Handler()) }()

	out := bufio.NewWriter(os.Stdout)
	reply := func(v interface{}) {
		b, _ := json.Marshal(v)
		out.Write(b)
		out.WriteByte('\n')
		out.Flush()
	}
	reply(map[string]interface{}{"ready": true, "addr": addr})

	sc := bufio.NewScanner(os.Stdin)
	for sc.Scan() {
		var rq request
		if err := json.Unmarshal(sc.Bytes(), &rq); err != nil {
			reply(map[string]interface{}{"ok": false, "err": err.Error()})
			continue
		}
		switch rq.Op {
		case "advance":
			clkMu.Lock()
			offset += time.Duration(rq.Seconds) * time.Second
			clkMu.Unlock()
			syncClock()
			reply(map[string]interface{}{"ok": true})
		case "cleanup":
			if err := cas.VerifC31CleanupPass(); err != nil {
				reply(map[string]interface{}{"ok": false, "err": err.Error()})
			} else {
				reply(map[string]interface{}{"ok": true})
			}
		case "quit":
			wbm.Close()
			reply(map[string]interface{}{"ok": true})
			os.Exit(0)
		default:
			reply(map[string]interface{}{"ok": false, "err": "unknown op"})
		}
	}
}
