// C32: build-index tag puts are dependency-checked, stable and written back.
//
// History monitor. Per history one real build-index node is assembled the way
// build-index/cmd does it: real tagserver (httptest) + real tagstore on a real
// SimpleStore + real write-back manager (sqlite task store, write-back
// executor) + the real tagtype dependency resolvers (docker manifests and
// default), driven through the real tagclient. Scripted at the outer boundary
// only: the origin cluster (which blobs are present, transient Stat errors,
// manifest downloads) and the storage backend (in-memory, with down / flaky
// periods). Histories are sequences of PUT / GET / HEAD for 2-3 tags x 2-3
// digests, dependency presence flips, Stat error bursts, backend down/up/flaky
// switches, settle points and concurrent bursts on one tag.
package c32

import (
	"bytes"
	"context"
	"errors"
	"fmt"
	"io"
	"math/rand"
	"net/http/httptest"
	"os"
	"path/filepath"
	"strconv"
	"strings"
	"sync"
	"sync/atomic"
	"testing"
	"time"

	"github.com/jmoiron/sqlx"
	"github.com/uber-go/tally"
	"go.opentelemetry.io/otel/trace/noop"

	"github.com/uber/kraken/build-index/tagclient"
	"github.com/uber/kraken/build-index/tagserver"
	"github.com/uber/kraken/build-index/tagstore"
	"github.com/uber/kraken/build-index/tagtype"
	"github.com/uber/kraken/core"
	"github.com/uber/kraken/lib/backend"
	"github.com/uber/kraken/lib/backend/backenderrors"
	"github.com/uber/kraken/lib/persistedretry"
	"github.com/uber/kraken/lib/persistedretry/writeback"
	"github.com/uber/kraken/lib/store"
	"github.com/uber/kraken/localdb"
	"github.com/uber/kraken/origin/blobclient"
	"github.com/uber/kraken/utils/httputil"
	"github.com/uber/kraken/utils/stringset"

	"verif/harness/internal/ev"
)

// ---------------------------------------------------------------------------
// case description

type digestSpec struct {
	Hex      string   `json:"digest"`
	Manifest string   `json:"-"`    // docker: manifest JSON whose sha256 is Hex
	Kind     string   `json:"kind"` // default | manifest | manifest-list
	Refs     []string `json:"refs"` // blobs the manifest references
	Deps     []string `json:"deps"` // everything the tag put depends on (refs + the digest itself)
}

type tagSpec struct {
	Name    string       `json:"name"`
	Type    string       `json:"type"` // docker | default
	Digests []digestSpec `json:"digests"`
}

type op struct {
	Kind  string `json:"kind"` // put get has present absent staterr down up flaky settle burst manifest_err
	Tag   int    `json:"tag,omitempty"`
	Dig   int    `json:"dig,omitempty"`
	Blob  string `json:"blob,omitempty"`
	N     int    `json:"n,omitempty"`
	Burst []op   `json:"burst,omitempty"`
}

type caseSpec struct {
	ID           int       `json:"id"`
	WriteThrough bool      `json:"write_through"`
	Tags         []tagSpec `json:"tags"`
	Absent       []string  `json:"initially_absent"` // dependency blobs missing at the start
	Ops          []op      `json:"ops"`
}

func hex64(r *rand.Rand) string {
	const h = "0123456789abcdef"
	b := make([]byte, 64)
	for i := range b {
		b[i] = h[r.Intn(16)]
	}
	return string(b)
}

func sha(b []byte) string {
	d, err := core.NewDigester().FromBytes(b)
	if err != nil {
		panic(err)
	}
	return d.Hex()
}

func genManifest(r *rand.Rand, pool []string) digestSpec {
	pick := func() string {
		if len(pool) > 0 && r.Intn(3) == 0 {
			return pool[r.Intn(len(pool))]
		}
		return hex64(r)
	}
	if r.Intn(6) == 0 {
		// manifest list referencing 1-3 manifests
		var refs []string
		var parts []string
		for k := 1 + r.Intn(3); k > 0; k-- {
			d := pick()
			dup := false
			for _, x := range refs {
				dup = dup || x == d
			}
			if dup {
				continue
			}
			refs = append(refs, d)
			parts = append(parts, fmt.Sprintf(`{"mediaType":"application/vnd.docker.distribution.manifest.v2+json","size":%d,"digest":"sha256:%s","platform":{"architecture":"amd64","os":"linux"}}`, 500+r.Intn(1000), d))
		}
		raw := fmt.Sprintf(`{"schemaVersion":2,"mediaType":"application/vnd.docker.distribution.manifest.list.v2+json","manifests":[%s]}`, strings.Join(parts, ","))
		ds := digestSpec{Hex: sha([]byte(raw)), Manifest: raw, Kind: "manifest-list", Refs: refs}
		ds.Deps = append(append([]string{}, refs...), ds.Hex)
		return ds
	}
	config := pick()
	refs := []string{config}
	var layers []string
	for k := r.Intn(4); k > 0; k-- {
		d := pick()
		dup := false
		for _, x := range refs {
			dup = dup || x == d
		}
		if dup {
			continue
		}
		refs = append(refs, d)
		layers = append(layers, fmt.Sprintf(`{"mediaType":"application/vnd.docker.image.rootfs.diff.tar.gzip","size":%d,"digest":"sha256:%s"}`, 1000+r.Intn(100000), d))
	}
	raw := fmt.Sprintf(`{"schemaVersion":2,"mediaType":"application/vnd.docker.distribution.manifest.v2+json","config":{"mediaType":"application/vnd.docker.container.image.v1+json","size":%d,"digest":"sha256:%s"},"layers":[%s]}`,
		1000+r.Intn(3000), config, strings.Join(layers, ","))
	ds := digestSpec{Hex: sha([]byte(raw)), Manifest: raw, Kind: "manifest", Refs: refs}
	ds.Deps = append(append([]string{}, refs...), ds.Hex)
	return ds
}

func genCase(r *rand.Rand, id int) caseSpec {
	c := caseSpec{ID: id, WriteThrough: r.Intn(2) == 0}
	nt := 2 + r.Intn(2)
	var pool []string
	for k := 0; k < 3; k++ {
		pool = append(pool, hex64(r))
	}
	var allDeps []string
	for ti := 0; ti < nt; ti++ {
		t := tagSpec{}
		if r.Intn(3) != 0 {
			t.Type = "docker"
			t.Name = fmt.Sprintf("docker/repo-%d/img%d:v%d", id, ti, r.Intn(50))
		} else {
			t.Type = "default"
			t.Name = fmt.Sprintf("misc/thing-%d/%d:r%d", id, ti, r.Intn(50))
		}
		for k := 2 + r.Intn(2); k > 0; k-- {
			var ds digestSpec
			if t.Type == "docker" {
				ds = genManifest(r, pool)
			} else {
				h := hex64(r)
				ds = digestSpec{Hex: h, Kind: "default", Deps: []string{h}}
			}
			t.Digests = append(t.Digests, ds)
			allDeps = append(allDeps, ds.Deps...)
		}
		c.Tags = append(c.Tags, t)
	}
	// any subset of dependencies missing
	seenAbs := map[string]bool{}
	for _, d := range allDeps {
		if r.Intn(8) == 0 && !seenAbs[d] {
			seenAbs[d] = true
			c.Absent = append(c.Absent, d)
		}
	}
	someDep := func() string { return allDeps[r.Intn(len(allDeps))] }
	simple := func() op {
		switch p := r.Intn(100); {
		case p < 42:
			ti := r.Intn(nt)
			return op{Kind: "put", Tag: ti, Dig: r.Intn(len(c.Tags[ti].Digests))}
		case p < 70:
			return op{Kind: "get", Tag: r.Intn(nt)}
		default:
			return op{Kind: "has", Tag: r.Intn(nt)}
		}
	}
	down := false
	n := 8 + r.Intn(18)
	for i := 0; i < n; i++ {
		switch p := r.Intn(100); {
		case p < 62:
			c.Ops = append(c.Ops, simple())
		case p < 70:
			c.Ops = append(c.Ops, op{Kind: "present", Blob: someDep()})
		case p < 77:
			c.Ops = append(c.Ops, op{Kind: "absent", Blob: someDep()})
		case p < 81:
			c.Ops = append(c.Ops, op{Kind: "staterr", N: 1 + r.Intn(3)})
		case p < 86:
			if down {
				c.Ops = append(c.Ops, op{Kind: "up"})
			} else {
				c.Ops = append(c.Ops, op{Kind: "down"})
			}
			down = !down
		case p < 90:
			c.Ops = append(c.Ops, op{Kind: "flaky", N: 1 + r.Intn(4)})
		case p < 93:
			if !down {
				c.Ops = append(c.Ops, op{Kind: "settle"})
			}
		case p < 95:
			ti := r.Intn(nt)
			if c.Tags[ti].Type == "docker" {
				c.Ops = append(c.Ops, op{Kind: "manifest_err", N: 1})
			}
		default:
			// concurrent burst on one tag
			ti := r.Intn(nt)
			var b []op
			for k := 2 + r.Intn(4); k > 0; k-- {
				if r.Intn(3) != 0 {
					b = append(b, op{Kind: "put", Tag: ti, Dig: r.Intn(len(c.Tags[ti].Digests))})
				} else {
					b = append(b, op{Kind: "get", Tag: ti})
				}
			}
			c.Ops = append(c.Ops, op{Kind: "burst", Tag: ti, Burst: b})
		}
	}
	return c
}

// ---------------------------------------------------------------------------
// scripted origin cluster

type fakeOrigin struct {
	mu          sync.Mutex
	present     map[string]bool   // truth: blob present in the origin cluster
	manifests   map[string]string // digest hex -> manifest bytes
	statErrs    int               // next n Stat calls fail transiently
	manifestErr int               // next n manifest downloads fail (permanent error class)
	statCalls   int
}

var errNotScripted = errors.New("not scripted")

func (o *fakeOrigin) Stat(namespace string, d core.Digest) (*core.BlobInfo, error) {
	o.mu.Lock()
	defer o.mu.Unlock()
	o.statCalls++
	if o.statErrs > 0 {
		o.statErrs--
		return nil, httputil.StatusError{Method: "HEAD", URL: "scripted", Status: 503}
	}
	if !o.present[d.Hex()] {
		return nil, blobclient.ErrBlobNotFound
	}
	return core.NewBlobInfo(int64(len(o.manifests[d.Hex()]) + 1)), nil
}

func (o *fakeOrigin) DownloadBlob(ctx context.Context, namespace string, d core.Digest, dst io.Writer) error {
	o.mu.Lock()
	m, ok := o.manifests[d.Hex()]
	present := o.present[d.Hex()]
	fail := false
	if o.manifestErr > 0 {
		o.manifestErr--
		fail = true
	}
	o.mu.Unlock()
	if fail {
		return httputil.StatusError{Method: "GET", URL: "scripted", Status: 500}
	}
	if !ok || !present {
		// a permanent error class keeps the resolver from sleeping through its
		// retries; semantically "the manifest cannot be fetched"
		return httputil.StatusError{Method: "GET", URL: "scripted", Status: 410}
	}
	_, err := io.WriteString(dst, m)
	return err
}

func (o *fakeOrigin) CheckReadiness() error { return nil }
func (o *fakeOrigin) UploadBlob(ctx context.Context, ns string, d core.Digest, b io.ReadSeeker, size uint64) error {
	return errNotScripted
}
func (o *fakeOrigin) PrefetchBlob(ns string, d core.Digest) error { return errNotScripted }
func (o *fakeOrigin) GetMetaInfo(ns string, d core.Digest) (*core.MetaInfo, error) {
	return nil, errNotScripted
}
func (o *fakeOrigin) OverwriteMetaInfo(d core.Digest, pieceLength int64) error { return errNotScripted }
func (o *fakeOrigin) Owners(d core.Digest) ([]core.PeerContext, error)         { return nil, errNotScripted }
func (o *fakeOrigin) ReplicateToRemote(ns string, d core.Digest, dns string) error {
	return errNotScripted
}

// ---------------------------------------------------------------------------
// scripted backend

type upload struct {
	Seq     int64  `json:"seq"`
	Name    string `json:"name"`
	Content string `json:"content"`
}

type fakeBackend struct {
	mu      sync.Mutex
	data    map[string]string
	down    bool
	flaky   int
	uploads []upload
	calls   int
	fails   int
	seq     *int64
}

func (b *fakeBackend) failingLocked() bool {
	b.calls++
	if b.down {
		b.fails++
		return true
	}
	if b.flaky > 0 {
		b.flaky--
		b.fails++
		return true
	}
	return false
}

func (b *fakeBackend) Stat(namespace, name string) (*core.BlobInfo, error) {
	b.mu.Lock()
	defer b.mu.Unlock()
	if b.failingLocked() {
		return nil, errors.New("scripted backend failure: stat")
	}
	v, ok := b.data[name]
	if !ok {
		return nil, backenderrors.ErrBlobNotFound
	}
	return core.NewBlobInfo(int64(len(v))), nil
}

func (b *fakeBackend) Upload(namespace, name string, src io.Reader) error {
	raw, rerr := io.ReadAll(src)
	b.mu.Lock()
	defer b.mu.Unlock()
	if b.failingLocked() {
		return errors.New("scripted backend failure: upload")
	}
	if rerr != nil {
		return rerr
	}
	b.data[name] = string(raw)
	b.uploads = append(b.uploads, upload{Seq: atomic.AddInt64(b.seq, 1), Name: name, Content: string(raw)})
	return nil
}

func (b *fakeBackend) Download(namespace, name string, dst io.Writer) error {
	b.mu.Lock()
	if b.failingLocked() {
		b.mu.Unlock()
		return errors.New("scripted backend failure: download")
	}
	v, ok := b.data[name]
	b.mu.Unlock()
	if !ok {
		return backenderrors.ErrBlobNotFound
	}
	_, err := io.WriteString(dst, v)
	return err
}

func (b *fakeBackend) List(prefix string, opts ...backend.ListOption) (*backend.ListResult, error) {
	return nil, errNotScripted
}
func (b *fakeBackend) Close() error { return nil }

func (b *fakeBackend) get(name string) (string, bool) {
	b.mu.Lock()
	defer b.mu.Unlock()
	v, ok := b.data[name]
	return v, ok
}

// the node has no neighbors (duplicate puts to neighbors are not part of C32)
type noNeighbors struct{}

func (noNeighbors) Resolve() stringset.Set { return stringset.New() }

// no-op manager for the (undriven) remote replication path
type nopManager struct{}

func (nopManager) Add(persistedretry.Task) error      { return nil }
func (nopManager) SyncExec(persistedretry.Task) error { return nil }
func (nopManager) Close()                             {}
func (nopManager) Find(q interface{}) ([]persistedretry.Task, error) {
	return nil, nil
}

// ---------------------------------------------------------------------------
// history + oracle

type rec struct {
	Op      string `json:"op"`
	Tag     string `json:"tag,omitempty"`
	Digest  string `json:"digest,omitempty"`
	Inv     int64  `json:"inv"`
	Res     int64  `json:"res"`
	OK      bool   `json:"ok"`
	Status  int    `json:"status,omitempty"`
	Err     string `json:"err,omitempty"`
	Got     string `json:"got,omitempty"`
	DepsOK  bool   `json:"deps_all_present,omitempty"`
	Missing string `json:"missing_dep,omitempty"`
	Note    string `json:"note,omitempty"`
	NetErr  bool   `json:"client_network_error,omitempty"` // no answer from the node reached the client (timeout): not an observation
}

type finding struct {
	Sig  string `json:"signature"`
	What string `json:"what"`
}

type node struct {
	t        *testing.T
	spec     caseSpec
	origin   *fakeOrigin
	be       *fakeBackend
	srv      *httptest.Server
	client   tagclient.Client
	wbm      persistedretry.Manager
	ss       *store.SimpleStore
	db       *sqlx.DB
	seq      int64
	mu       sync.Mutex
	hist     []*rec
	findings []finding
	inconcl  string
	// oracle state per tag
	okPutRes   map[string]int64  // earliest response seq of a successful PUT
	candidates map[string][]*rec // PUT requests whose dependencies were all present
	stable     map[string]string // first digest resolved after a successful PUT
	settles    int
}

var dbMu sync.Mutex // goose keeps its dialect in a package global

func openDB(t *testing.T, path string) *sqlx.DB {
	dbMu.Lock()
	defer dbMu.Unlock()
	db, err := localdb.New(localdb.Config{Source: path})
	if err != nil {
		t.Fatalf("localdb: %v", err)
	}
	return db
}

func newNode(t *testing.T, dir string, db *sqlx.DB, c caseSpec) *node {
	n := &node{t: t, spec: c, okPutRes: map[string]int64{}, candidates: map[string][]*rec{}, stable: map[string]string{}}
	n.origin = &fakeOrigin{present: map[string]bool{}, manifests: map[string]string{}}
	for _, tg := range c.Tags {
		for _, d := range tg.Digests {
			for _, x := range d.Deps {
				n.origin.present[x] = true
			}
			if d.Manifest != "" {
				n.origin.manifests[d.Hex] = d.Manifest
			}
		}
	}
	for _, a := range c.Absent {
		n.origin.present[a] = false
	}
	n.be = &fakeBackend{data: map[string]string{}, seq: &n.seq}

	ss, err := store.NewSimpleStore(store.SimpleStoreConfig{
		UploadDir: filepath.Join(dir, "upload"), CacheDir: filepath.Join(dir, "cache"),
		UploadCleanup: store.CleanupConfig{Disabled: true}, CacheCleanup: store.CleanupConfig{Disabled: true},
	}, tally.NoopScope)
	if err != nil {
		t.Fatalf("simple store: %v", err)
	}
	n.ss = ss
	n.db = db
	backends := backend.ManagerFixture()
	if err := backends.Register(".*", n.be, false); err != nil {
		t.Fatalf("register backend: %v", err)
	}
	wbm, err := persistedretry.NewManager(persistedretry.Config{
		IncomingBuffer: 32, RetryBuffer: 32, NumIncomingWorkers: 2, NumRetryWorkers: 1,
		MaxTaskThroughput: 200 * time.Microsecond, RetryInterval: time.Millisecond, PollRetriesInterval: 3 * time.Millisecond,
		SyncRetryBackoff: httputil.ExponentialBackOffConfig{Enabled: true, InitialInterval: time.Millisecond, MaxInterval: 2 * time.Millisecond, MaxRetries: 2},
	}, tally.NoopScope, writeback.NewStore(db), writeback.NewExecutor(tally.NoopScope, ss, backends))
	if err != nil {
		t.Fatalf("write-back manager: %v", err)
	}
	n.wbm = wbm
	ts := tagstore.New(tagstore.Config{WriteThrough: c.WriteThrough}, ss, backends, wbm)
	resolver, err := tagtype.NewMap([]tagtype.Config{{Namespace: "^docker/.*", Type: "docker"}, {Namespace: ".*", Type: "default"}}, n.origin)
	if err != nil {
		t.Fatalf("tagtype: %v", err)
	}
	h := tagserver.New(tagserver.Config{}, tally.NoopScope, backends, "local-origin-dns", n.origin, noNeighbors{},
		ts, nil, nopManager{}, tagclient.NewProvider(nil), resolver, noop.NewTracerProvider().Tracer("c32")).Handler()
	n.srv = httptest.NewServer(h)
	n.client = tagclient.NewSingleClient(strings.TrimPrefix(n.srv.URL, "http://"), nil)
	return n
}

func (n *node) close() {
	n.srv.Close()
	n.wbm.Close()
	n.ss.Close()
}

func (n *node) tick() int64 { return atomic.AddInt64(&n.seq, 1) }

func (n *node) add(sig, f string, a ...interface{}) {
	n.mu.Lock()
	n.findings = append(n.findings, finding{sig, fmt.Sprintf(f, a...)})
	n.mu.Unlock()
}

func errInfo(err error) (int, string) {
	if err == nil {
		return 200, ""
	}
	s := err.Error()
	if len(s) > 200 {
		s = s[:200]
	}
	if se, ok := err.(httputil.StatusError); ok {
		return se.Status, s
	}
	return 0, s
}

func shortHex(h string) string {
	if len(h) > 10 {
		return h[:10]
	}
	return h
}

// depsState reports whether every dependency of the put is present right now.
func (n *node) depsState(d digestSpec) (bool, string) {
	n.origin.mu.Lock()
	defer n.origin.mu.Unlock()
	for _, x := range d.Deps {
		if !n.origin.present[x] {
			return false, x
		}
	}
	return true, ""
}

// doPut: dependency presence does not change while a put is in flight (the
// history only flips presence between operations).
func (n *node) doPut(ti, di int) *rec {
	tg := n.spec.Tags[ti]
	ds := tg.Digests[di]
	ok, missing := n.depsState(ds)
	r := &rec{Op: "put", Tag: tg.Name, Digest: ds.Hex, DepsOK: ok, Missing: missing, Inv: n.tick()}
	if ok {
		// a candidate from its invocation on: it may be stored before it returns
		n.mu.Lock()
		n.candidates[tg.Name] = append(n.candidates[tg.Name], r)
		n.mu.Unlock()
	}
	d, _ := core.NewSHA256DigestFromHex(ds.Hex)
	err := n.client.Put(tg.Name, d)
	r.Res = n.tick()
	r.OK = err == nil
	r.Status, r.Err = errInfo(err)
	r.NetErr = httputil.IsNetworkError(err) // outcome at the node unknown; stays a candidate, is not a success
	n.mu.Lock()
	n.hist = append(n.hist, r)
	if r.OK {
		if cur, seen := n.okPutRes[tg.Name]; !seen || r.Res < cur {
			n.okPutRes[tg.Name] = r.Res
		}
	}
	n.mu.Unlock()
	if r.OK && !ok {
		n.add("put-succeeded-with-missing-dependency", "PUT %s -> %s returned 200 although dependency %s is not present in the origin cluster", tg.Name, shortHex(ds.Hex), shortHex(missing))
	}
	if r.OK && n.spec.WriteThrough {
		// write-through: the backend holds the tag when the PUT returns
		if v, has := n.be.get(tg.Name); !has {
			n.add("write-through-put-ok-but-backend-lacks-tag", "write-through PUT %s -> %s returned 200 but the backend has no entry for the tag", tg.Name, shortHex(ds.Hex))
		} else {
			r.Note = "backend=" + shortHex(strings.TrimPrefix(v, "sha256:"))
		}
	}
	return r
}

func (n *node) doGet(ti int) *rec {
	tg := n.spec.Tags[ti]
	r := &rec{Op: "get", Tag: tg.Name, Inv: n.tick()}
	d, err := n.client.Get(tg.Name)
	r.Res = n.tick()
	r.OK = err == nil
	r.Status, r.Err = errInfo(err)
	if err == tagclient.ErrTagNotFound {
		r.Status = 404
	}
	if err == nil {
		r.Got = d.Hex()
	}
	if httputil.IsNetworkError(err) {
		// the client gave up (its 10 s timeout on a stalled machine) or the
		// connection broke: the node's answer was not observed
		r.NetErr = true
		n.mu.Lock()
		n.hist = append(n.hist, r)
		n.mu.Unlock()
		return r
	}
	n.mu.Lock()
	n.hist = append(n.hist, r)
	okRes, afterSuccess := n.okPutRes[tg.Name]
	afterSuccess = afterSuccess && okRes < r.Inv
	var allowed bool
	for _, c := range n.candidates[tg.Name] {
		if c.Inv < r.Res && c.Digest == r.Got {
			allowed = true
		}
	}
	stable := n.stable[tg.Name]
	if afterSuccess && r.OK && stable == "" {
		n.stable[tg.Name] = r.Got
	}
	n.mu.Unlock()
	if afterSuccess {
		switch {
		case !r.OK:
			n.add("get-after-successful-put-fails", "GET %s after a successful PUT returned %d %s", tg.Name, r.Status, r.Err)
		case !allowed:
			n.add("get-resolves-digest-never-put", "GET %s resolved %s which no dependency-complete PUT for the tag carried", tg.Name, shortHex(r.Got))
		case stable != "" && stable != r.Got:
			n.add("tag-changed-after-stored", "GET %s resolved %s, an earlier GET after the successful PUT resolved %s", tg.Name, shortHex(r.Got), shortHex(stable))
		}
	}
	// before any PUT succeeded the statement does not constrain GET
	return r
}

func (n *node) doHas(ti int) *rec {
	tg := n.spec.Tags[ti]
	r := &rec{Op: "has", Tag: tg.Name, Inv: n.tick()}
	has, err := n.client.Has(tg.Name)
	r.Res = n.tick()
	r.OK = err == nil
	r.Status, r.Err = errInfo(err)
	r.Got = strconv.FormatBool(has)
	n.mu.Lock()
	n.hist = append(n.hist, r)
	n.mu.Unlock()
	return r
}

// settle waits (bounded) until the write-back of every successfully put tag is
// done and compares backend and node. Expiry of the bound is inconclusive; a
// task that is gone while the backend lacks the tag is a logical violation.
func (n *node) settle(final bool) {
	n.mu.Lock()
	var tags []string
	for tag := range n.okPutRes {
		tags = append(tags, tag)
	}
	n.settles++
	n.mu.Unlock()
	deadline := time.Now().Add(60 * time.Second)
	for _, tag := range tags {
		for {
			tasks, err := n.wbm.Find(writeback.NewNameQuery(tag))
			_, has := n.be.get(tag)
			if has {
				break
			}
			if err == nil && len(tasks) == 0 {
				// store read first (empty), backend read second (lacks): the
				// executor uploads before the manager removes the task
				if _, has2 := n.be.get(tag); !has2 {
					n.add("write-back-task-gone-but-backend-lacks-tag", "tag %s was PUT successfully, no write-back task is left for it and the backend does not hold it", tag)
				}
				break
			}
			if time.Now().After(deadline) {
				n.mu.Lock()
				n.inconcl = fmt.Sprintf("write-back of %s not observed within 60 s of the backend being available", tag)
				n.mu.Unlock()
				break
			}
			time.Sleep(2 * time.Millisecond)
		}
	}
	// backend and node agree
	for ti, tg := range n.spec.Tags {
		n.mu.Lock()
		_, okPut := n.okPutRes[tg.Name]
		n.mu.Unlock()
		if !okPut {
			continue
		}
		v, has := n.be.get(tg.Name)
		if !has {
			continue // reported above (or inconclusive)
		}
		g := n.doGet(ti)
		if g.OK && strings.TrimPrefix(v, "sha256:") != g.Got {
			n.add("backend-digest-differs-from-node", "tag %s: backend holds %s, the node resolves %s", tg.Name, shortHex(strings.TrimPrefix(v, "sha256:")), shortHex(g.Got))
		}
	}
	_ = final
}

func (n *node) run() {
	for _, o := range n.spec.Ops {
		switch o.Kind {
		case "put":
			n.doPut(o.Tag, o.Dig)
		case "get":
			n.doGet(o.Tag)
		case "has":
			n.doHas(o.Tag)
		case "present", "absent":
			n.origin.mu.Lock()
			n.origin.present[o.Blob] = o.Kind == "present"
			n.origin.mu.Unlock()
			n.mu.Lock()
			n.hist = append(n.hist, &rec{Op: o.Kind, Digest: o.Blob, Inv: n.tick()})
			n.mu.Unlock()
		case "staterr":
			n.origin.mu.Lock()
			n.origin.statErrs = o.N
			n.origin.mu.Unlock()
		case "manifest_err":
			n.origin.mu.Lock()
			n.origin.manifestErr = o.N
			n.origin.mu.Unlock()
		case "down", "up":
			n.be.mu.Lock()
			n.be.down = o.Kind == "down"
			n.be.mu.Unlock()
			n.mu.Lock()
			n.hist = append(n.hist, &rec{Op: "backend_" + o.Kind, Inv: n.tick()})
			n.mu.Unlock()
		case "flaky":
			n.be.mu.Lock()
			n.be.flaky = o.N
			n.be.mu.Unlock()
			n.mu.Lock()
			n.hist = append(n.hist, &rec{Op: "backend_flaky", Note: strconv.Itoa(o.N), Inv: n.tick()})
			n.mu.Unlock()
		case "settle":
			n.settle(false)
		case "burst":
			var wg sync.WaitGroup
			for _, b := range o.Burst {
				wg.Add(1)
				go func(b op) {
					defer wg.Done()
					if b.Kind == "put" {
						n.doPut(b.Tag, b.Dig)
					} else {
						n.doGet(b.Tag)
					}
				}(b)
			}
			wg.Wait()
		}
	}
	// end of history: backend available again, everything must settle
	n.be.mu.Lock()
	n.be.down = false
	n.be.flaky = 0
	n.be.mu.Unlock()
	n.mu.Lock()
	n.hist = append(n.hist, &rec{Op: "backend_up", Note: "end of history", Inv: n.tick()})
	n.mu.Unlock()
	n.settle(true)
	for ti := range n.spec.Tags {
		n.doGet(ti)
	}
}

type outcome struct {
	spec       caseSpec
	hist       []*rec
	findings   []finding
	inconcl    string
	uploads    []upload
	okPuts     int
	failedPuts int
	depRejects int
	gets       int
	beCalls    int
	beFails    int
	statCalls  int
	netErrs    int
	ops        int
	nontrivial bool
}

// runCase runs one history on a fresh node. The sqlite file of the write-back
// task store is shared by the histories of one worker (tag names are unique per
// history, so tasks never collide); everything else is per history.
func runCase(t *testing.T, base string, db *sqlx.DB, c caseSpec, attempt int) *outcome {
	dir := filepath.Join(base, fmt.Sprintf("case-%d-%d", c.ID, attempt))
	if err := os.MkdirAll(dir, 0o755); err != nil {
		t.Fatalf("mkdir: %v", err)
	}
	defer os.RemoveAll(dir)
	n := newNode(t, dir, db, c)
	n.run()
	n.close()
	o := &outcome{spec: c, hist: n.hist, findings: n.findings, inconcl: n.inconcl}
	n.be.mu.Lock()
	o.uploads, o.beCalls, o.beFails = n.be.uploads, n.be.calls, n.be.fails
	n.be.mu.Unlock()
	o.statCalls = n.origin.statCalls
	for _, r := range n.hist {
		if r.NetErr {
			o.netErrs++
		}
		if r.Op == "put" || r.Op == "get" || r.Op == "has" {
			o.ops++
		}
		switch r.Op {
		case "put":
			if r.OK {
				o.okPuts++
			} else {
				o.failedPuts++
				if !r.DepsOK {
					o.depRejects++
				}
			}
		case "get":
			o.gets++
		}
	}
	// every upload carries the digest the node resolves for that tag
	for _, u := range o.uploads {
		if st, ok := n.stable[u.Name]; ok && st != "" && strings.TrimPrefix(u.Content, "sha256:") != st {
			o.findings = append(o.findings, finding{"backend-digest-differs-from-node",
				fmt.Sprintf("upload of %s wrote %s, the node resolves %s", u.Name, shortHex(u.Content), shortHex(st))})
		}
	}
	o.nontrivial = o.okPuts > 0 && (o.failedPuts > 0 || o.beFails > 0)
	return o
}

func TestC32(t *testing.T) {
	run := ev.Start(t, "C32", "exploration",
		"PRNG-generated histories against one real build-index node (write-through or async write-back): 8-25 steps over 2-3 tags (docker-manifest, manifest-list and default tag types) x 2-3 digests each "+
			"(manifests with 1-4 referenced blobs, some shared), with any subset of dependency blobs missing at the start; steps: PUT, GET, HEAD, make a dependency present/absent, transient Stat errors, manifest download errors, "+
			"backend down / up / flaky-for-k-calls, settle points, concurrent bursts of 2-5 PUT/GET on one tag. A history is non-trivial when it contains at least one successful PUT and at least one failed PUT or failed backend call; "+
			"distinct = distinct history description.")
	defer run.Finish()
	run.Assume("origin cluster (blob presence, Stat errors, manifest downloads) and storage backend are scripted in-memory fakes at the outer boundary; tag server, tag store, SimpleStore, write-back manager/executor/store, dependency resolvers and tag client are the real code")
	run.Assume("single node, empty backend at the start (a backend pre-seeded by another node is outside the statement's quantifier); dependency presence changes only between operations, never while a PUT is in flight")
	run.Assume("'eventually written back' is judged as: no write-back task may disappear while the backend lacks the tag (violation) plus a 60 s progress bound after the backend is available (inconclusive when tripped); the manager runs on real time with 1-3 ms intervals because it has no clock seam")

	r := run.Rand("cases")
	ncases := run.N(240, 2000)
	cases := make([]caseSpec, ncases)
	for i := range cases {
		cases[i] = genCase(r, i)
	}
	base := ev.TempDir(t, "c32-")
	const workers = 12
	outcomes := make([]*outcome, ncases)
	replay := run.ReplayCase()
	var wg sync.WaitGroup
	for wi := 0; wi < workers; wi++ {
		wg.Add(1)
		go func(wi int) {
			defer wg.Done()
			db := openDB(t, filepath.Join(base, fmt.Sprintf("worker-%d.db", wi)))
			defer db.Close()
			for i := wi; i < ncases; i += workers {
				if replay != "" && replay != strconv.Itoa(i) {
					continue
				}
				o := runCase(t, base, db, cases[i], 0)
				if o.inconcl != "" {
					if o2 := runCase(t, base, db, cases[i], 1); o2.inconcl == "" {
						o = o2
					}
				}
				outcomes[i] = o
			}
		}(wi)
	}
	wg.Wait()

	inconcl := 0
	netErrs, ops := 0, 0
	defer func() {
		if netErrs*100 > ops {
			run.Inconclusive(fmt.Sprintf("%d of %d client operations got no answer from the node (client timeouts): machine too slow to observe", netErrs, ops))
		}
	}()
	for i, o := range outcomes {
		if o == nil {
			continue
		}
		netErrs += o.netErrs
		ops += o.ops
		if o.netErrs > 0 {
			run.Count("client_operations_without_answer", int64(o.netErrs))
		}
		run.Case(ev.JSON(o.spec), o.nontrivial)
		run.Count("puts_ok", int64(o.okPuts))
		run.Count("puts_failed", int64(o.failedPuts))
		run.Count("puts_rejected_with_missing_dependency", int64(o.depRejects))
		run.Count("gets", int64(o.gets))
		run.Count("backend_calls", int64(o.beCalls))
		run.Count("backend_calls_failed", int64(o.beFails))
		run.Count("backend_uploads", int64(len(o.uploads)))
		run.Count("origin_stat_calls", int64(o.statCalls))
		if o.spec.WriteThrough {
			run.Count("histories_write_through", 1)
		} else {
			run.Count("histories_async", 1)
		}
		var shape bytes.Buffer
		for _, h := range o.hist {
			shape.WriteString(h.Op[:1])
			if h.Op == "put" || h.Op == "get" {
				if h.OK {
					shape.WriteString("+")
				} else {
					shape.WriteString("-")
				}
			}
		}
		run.Distinct("history_outcome_shapes", shape.String())
		if run.WantSample() && i%53 == 0 {
			hs := o.hist
			if len(hs) > 30 {
				hs = hs[:30]
			}
			run.Sample(map[string]interface{}{"case": o.spec, "history": hs, "uploads": o.uploads})
		}
		if o.inconcl != "" {
			inconcl++
			if inconcl <= 3 {
				run.Inconclusive(fmt.Sprintf("history %d: %s", i, o.inconcl))
			}
		}
		seen := map[string]bool{}
		for _, f := range o.findings {
			if seen[f.Sig] {
				continue
			}
			seen[f.Sig] = true
			run.Violation(f.Sig, strconv.Itoa(i), map[string]interface{}{"case": o.spec, "what": f.What, "all_findings": o.findings, "history": o.hist, "uploads": o.uploads})
		}
	}
}
