// C33: tags reach a remote cluster only after their blobs do.
//
// Order checker over one event log. The real tagreplication.Executor runs
// under the real persistedretry manager (real sqlite task store, tiny retry
// intervals, optional manager restart in the middle). Its origin side is the
// real blobclient.NewClusterClient (real Poll loop) over scripted
// blobclient.Clients; its remote build-index side is a scripted
// tagclient.Provider. Every fake call and every Exec start/end is appended to
// one log; the oracle replays the log per execution.
package c33

import (
	"context"
	"errors"
	"fmt"
	"io"
	"math/rand"
	"path/filepath"
	"strconv"
	"strings"
	"sync"
	"testing"
	"time"

	"github.com/jmoiron/sqlx"
	"github.com/uber-go/tally"

	"github.com/uber/kraken/build-index/tagclient"
	"github.com/uber/kraken/build-index/tagmodels"
	"github.com/uber/kraken/core"
	"github.com/uber/kraken/lib/persistedretry"
	"github.com/uber/kraken/lib/persistedretry/tagreplication"
	"github.com/uber/kraken/localdb"
	"github.com/uber/kraken/origin/blobclient"
	"github.com/uber/kraken/utils/httputil"

	"verif/harness/internal/ev"
)

// ---------------------------------------------------------------------------
// case description

// step of a scripted call: "ok", "err" (network-like error), "s<code>" (StatusError)
type taskSpec struct {
	Tag     string   `json:"tag"`
	Digest  string   `json:"digest"`
	Deps    []string `json:"deps"`
	Dest    string   `json:"dest"`
	DelayMs int      `json:"delay_ms"`
	// remote build-index behaviour for this tag
	RemoteHasAtStart bool     `json:"remote_has_at_start"`
	Has              []string `json:"has"`    // per call: "truth" | "err"
	Origin           []string `json:"origin"` // per call: "ok" | "err"
	Put              []string `json:"put"`    // per call: "ok" | "err"
	// origin cluster behaviour: per dependency, per client, per call
	Replicate map[string][][]string `json:"replicate"` // dep hex -> client idx -> steps
	// Repush: the same (mutable) tag is pushed again with another digest and
	// another dependency list while the first task is still queued.
	Repush *repushSpec `json:"repush,omitempty"`
}

type repushSpec struct {
	Digest string   `json:"digest"`
	Deps   []string `json:"deps"`
	When   string   `json:"when"` // "delayed": right after the (delayed) first task was added; "after-failure": after its first failed execution
}

// addRepush turns a case into a re-push case (drawn from its own PRNG stream so
// that the rest of the case list stays what it was).
func addRepush(r *rand.Rand, c *caseSpec) {
	t := &c.Tasks[r.Intn(len(c.Tasks))]
	if t.RemoteHasAtStart {
		return
	}
	rp := &repushSpec{Digest: hex64(r)}
	for k := 1 + r.Intn(3); k > 0; k-- {
		rp.Deps = append(rp.Deps, hex64(r)) // the new image has layers of its own
	}
	if len(t.Deps) > 0 && r.Intn(2) == 0 {
		rp.Deps = append(rp.Deps, t.Deps[r.Intn(len(t.Deps))]) // and may share a base layer
	}
	if r.Intn(2) == 0 {
		rp.When = "delayed"
		t.DelayMs = 30 + r.Intn(30)
	} else {
		rp.When = "after-failure"
		// the first attempts fail at the remote build-index, the task stays queued
		t.Put = append([]string{"err", "err", "err"}, t.Put...)
	}
	t.Repush = rp
}

type caseSpec struct {
	ID        int                 `json:"id"`
	Clients   int                 `json:"origin_clients"`
	Tasks     []taskSpec          `json:"tasks"`
	RestartAt int                 `json:"restart_after_execs"` // 0 = never
	Resolve   map[string][]string `json:"resolve"`             // dep hex -> per call "ok" | "err"
	Workers   [2]int              `json:"workers"`
}

func hex64(r *rand.Rand) string {
	const h = "0123456789abcdef"
	b := make([]byte, 64)
	for i := range b {
		b[i] = h[r.Intn(16)]
	}
	return string(b)
}

func genSteps(r *rand.Rand, maxFail int, fail func() string, final string) []string {
	var s []string
	for k := r.Intn(maxFail + 1); k > 0; k-- {
		s = append(s, fail())
	}
	if final != "" {
		s = append(s, final)
	}
	return s
}

func genCase(r *rand.Rand, id int) caseSpec {
	c := caseSpec{ID: id, Clients: 1 + r.Intn(3), Resolve: map[string][]string{}}
	c.Workers = [2]int{1 + r.Intn(3), 1 + r.Intn(2)}
	nt := 1 + r.Intn(3)
	shared := []string{hex64(r), hex64(r)}
	budget202 := 0
	if r.Intn(12) == 0 {
		budget202 = 1 + r.Intn(2)
	}
	for ti := 0; ti < nt; ti++ {
		t := taskSpec{
			Tag:    fmt.Sprintf("repo%d/img-%d:v%d", id, ti, r.Intn(100)),
			Digest: hex64(r),
			Dest:   fmt.Sprintf("remote-build-index-%d", r.Intn(2)),
		}
		if r.Intn(5) == 0 {
			t.DelayMs = 5 + r.Intn(40)
		}
		nd := r.Intn(5)
		for k := 0; k < nd; k++ {
			if r.Intn(4) == 0 {
				d := shared[r.Intn(2)]
				dup := false
				for _, x := range t.Deps {
					dup = dup || x == d
				}
				if !dup {
					t.Deps = append(t.Deps, d)
					continue
				}
			}
			t.Deps = append(t.Deps, hex64(r))
		}
		t.RemoteHasAtStart = r.Intn(12) == 0
		t.Has = genSteps(r, 2, func() string { return "err" }, "")
		t.Origin = genSteps(r, 2, func() string { return "err" }, "")
		t.Put = genSteps(r, 3, func() string { return "err" }, "")
		t.Replicate = map[string][][]string{}
		for _, d := range t.Deps {
			per := make([][]string, c.Clients)
			for ci := range per {
				if r.Intn(2) == 0 {
					continue // this client answers ok right away
				}
				per[ci] = genSteps(r, 2, func() string {
					switch p := r.Intn(100); {
					case p < 35:
						return "err"
					case p < 60:
						return []string{"s500", "s502", "s503", "s504"}[r.Intn(4)]
					case p < 72:
						return []string{"s404", "s400", "s409"}[r.Intn(3)]
					case p < 80:
						if budget202 > 0 {
							budget202--
							return "s202"
						}
						return "s503"
					default:
						return "ok"
					}
				}, "")
			}
			t.Replicate[d] = per
			if _, ok := c.Resolve[d]; !ok && r.Intn(6) == 0 {
				c.Resolve[d] = genSteps(r, 2, func() string { return "err" }, "")
			}
		}
		c.Tasks = append(c.Tasks, t)
	}
	if r.Intn(4) == 0 {
		c.RestartAt = 1 + r.Intn(4)
	}
	return c
}

// ---------------------------------------------------------------------------
// event log

type event struct {
	Seq    int    `json:"seq"`
	Kind   string `json:"kind"` // exec_start exec_end has origin replicate resolve put
	Tag    string `json:"tag"`
	Exec   int    `json:"exec,omitempty"` // execution id (remote client instance)
	Dep    string `json:"dep,omitempty"`
	Client int    `json:"client,omitempty"`
	Arg    string `json:"arg,omitempty"`
	Result string `json:"result"`
}

type rigT struct {
	mu       sync.Mutex
	spec     caseSpec
	events   []event
	pos      map[string]int  // script positions
	remote   map[string]bool // tag -> remote build-index holds it
	execs    map[string]int  // tag -> number of exec starts
	active   map[string]int  // tag -> active executions
	overlap  bool
	nextExec int
	tasks    map[string]*taskSpec
	execCh   chan struct{}
}

func newRig(c caseSpec) *rigT {
	g := &rigT{spec: c, pos: map[string]int{}, remote: map[string]bool{}, execs: map[string]int{}, active: map[string]int{},
		tasks: map[string]*taskSpec{}, execCh: make(chan struct{}, 1024)}
	for i := range c.Tasks {
		t := &c.Tasks[i]
		g.tasks[t.Tag] = t
		g.remote[t.Tag] = t.RemoteHasAtStart
	}
	return g
}

// step consumes the next scripted step of a call site; past the script: def.
func (g *rigT) stepLocked(key string, script []string, def string) string {
	i := g.pos[key]
	g.pos[key] = i + 1
	if i < len(script) {
		return script[i]
	}
	return def
}

func (g *rigT) logLocked(e event) {
	e.Seq = len(g.events)
	g.events = append(g.events, e)
}

func short(h string) string {
	if len(h) > 8 {
		return h[:8]
	}
	return h
}

// --- remote build-index fake (one instance per Provide call = per execution)

type fakeRemote struct {
	g    *rigT
	addr string
	id   int
	tag  string
}

type fakeProvider struct{ g *rigT }

func (p *fakeProvider) Provide(addr string) tagclient.Client {
	p.g.mu.Lock()
	defer p.g.mu.Unlock()
	p.g.nextExec++
	return &fakeRemote{g: p.g, addr: addr, id: p.g.nextExec}
}

func originDNS(addr string) string { return "origin-of-" + addr }

func (f *fakeRemote) Has(tag string) (bool, error) {
	g := f.g
	g.mu.Lock()
	defer g.mu.Unlock()
	f.tag = tag
	t := g.tasks[tag]
	if t == nil {
		g.logLocked(event{Kind: "has", Tag: tag, Exec: f.id, Result: "unknown-tag"})
		return false, errors.New("unknown tag")
	}
	s := g.stepLocked("has/"+tag, t.Has, "truth")
	if s == "err" {
		g.logLocked(event{Kind: "has", Tag: tag, Exec: f.id, Result: "err"})
		return false, errors.New("scripted has error")
	}
	has := g.remote[tag]
	g.logLocked(event{Kind: "has", Tag: tag, Exec: f.id, Result: strconv.FormatBool(has)})
	return has, nil
}

func (f *fakeRemote) Origin() (string, error) {
	g := f.g
	g.mu.Lock()
	defer g.mu.Unlock()
	t := g.tasks[f.tag]
	var script []string
	if t != nil {
		script = t.Origin
	}
	s := g.stepLocked("origin/"+f.tag, script, "ok")
	if s == "err" {
		g.logLocked(event{Kind: "origin", Tag: f.tag, Exec: f.id, Result: "err"})
		return "", errors.New("scripted origin lookup error")
	}
	g.logLocked(event{Kind: "origin", Tag: f.tag, Exec: f.id, Result: originDNS(f.addr)})
	return originDNS(f.addr), nil
}

func (f *fakeRemote) PutAndReplicate(tag string, d core.Digest) error {
	g := f.g
	g.mu.Lock()
	defer g.mu.Unlock()
	t := g.tasks[tag]
	var script []string
	if t != nil {
		script = t.Put
	}
	s := g.stepLocked("put/"+tag, script, "ok")
	if s == "err" {
		g.logLocked(event{Kind: "put", Tag: tag, Exec: f.id, Arg: d.Hex(), Result: "err"})
		return httputil.StatusError{Method: "PUT", URL: "scripted", Status: 500}
	}
	g.remote[tag] = true
	g.logLocked(event{Kind: "put", Tag: tag, Exec: f.id, Arg: d.Hex(), Result: "ok"})
	return nil
}

var errNotScripted = errors.New("not scripted")

func (f *fakeRemote) CheckReadiness() error                     { return nil }
func (f *fakeRemote) Put(tag string, d core.Digest) error       { return errNotScripted }
func (f *fakeRemote) Get(tag string) (core.Digest, error)       { return core.Digest{}, errNotScripted }
func (f *fakeRemote) List(prefix string) ([]string, error)      { return nil, errNotScripted }
func (f *fakeRemote) ListRepository(r string) ([]string, error) { return nil, errNotScripted }
func (f *fakeRemote) Replicate(tag string) error                { return errNotScripted }
func (f *fakeRemote) ListWithPagination(prefix string, filter tagclient.ListFilter) (tagmodels.ListResponse, error) {
	return tagmodels.ListResponse{}, errNotScripted
}
func (f *fakeRemote) ListRepositoryWithPagination(repo string, filter tagclient.ListFilter) (tagmodels.ListResponse, error) {
	return tagmodels.ListResponse{}, errNotScripted
}
func (f *fakeRemote) DuplicateReplicate(tag string, d core.Digest, deps core.DigestList, delay time.Duration) error {
	return errNotScripted
}
func (f *fakeRemote) DuplicatePut(tag string, d core.Digest, delay time.Duration) error {
	return errNotScripted
}

// --- origin fakes

type fakeOrigin struct {
	g   *rigT
	idx int
}

func (o *fakeOrigin) Addr() string { return fmt.Sprintf("origin-%d:80", o.idx) }

func (o *fakeOrigin) ReplicateToRemote(namespace string, d core.Digest, remoteDNS string) error {
	g := o.g
	g.mu.Lock()
	defer g.mu.Unlock()
	t := g.tasks[namespace]
	var script []string
	if t != nil {
		if per, ok := t.Replicate[d.Hex()]; ok && o.idx < len(per) {
			script = per[o.idx]
		}
	}
	s := g.stepLocked(fmt.Sprintf("rep/%s/%s/%d", namespace, d.Hex(), o.idx), script, "ok")
	g.logLocked(event{Kind: "replicate", Tag: namespace, Dep: d.Hex(), Client: o.idx, Arg: remoteDNS, Result: s})
	switch {
	case s == "ok":
		return nil
	case s == "err":
		return errors.New("scripted network error: connection refused")
	default:
		code, _ := strconv.Atoi(s[1:])
		return httputil.StatusError{Method: "POST", URL: "scripted", Status: code}
	}
}

func (o *fakeOrigin) CheckReadiness() error                                   { return nil }
func (o *fakeOrigin) Locations(d core.Digest) ([]string, error)               { return nil, errNotScripted }
func (o *fakeOrigin) DeleteBlob(d core.Digest) error                          { return errNotScripted }
func (o *fakeOrigin) TransferBlob(d core.Digest, b io.Reader, s uint64) error { return errNotScripted }
func (o *fakeOrigin) Stat(ns string, d core.Digest) (*core.BlobInfo, error) {
	return nil, errNotScripted
}
func (o *fakeOrigin) StatLocal(ns string, d core.Digest) (*core.BlobInfo, error) {
	return nil, errNotScripted
}
func (o *fakeOrigin) GetMetaInfo(ns string, d core.Digest) (*core.MetaInfo, error) {
	return nil, errNotScripted
}
func (o *fakeOrigin) OverwriteMetaInfo(d core.Digest, pieceLength int64) error { return errNotScripted }
func (o *fakeOrigin) UploadBlob(ctx context.Context, ns string, d core.Digest, b io.Reader, s uint64) error {
	return errNotScripted
}
func (o *fakeOrigin) DuplicateUploadBlob(ns string, d core.Digest, b io.Reader, s uint64, delay time.Duration) error {
	return errNotScripted
}
func (o *fakeOrigin) DownloadBlob(ctx context.Context, ns string, d core.Digest, dst io.Writer) error {
	return errNotScripted
}
func (o *fakeOrigin) PrefetchBlob(ns string, d core.Digest) error { return errNotScripted }
func (o *fakeOrigin) GetPeerContext() (core.PeerContext, error) {
	return core.PeerContext{}, errNotScripted
}
func (o *fakeOrigin) ForceCleanup(ttl time.Duration) error { return errNotScripted }

type fakeResolver struct {
	g       *rigT
	clients []blobclient.Client
}

func (r *fakeResolver) Resolve(d core.Digest) ([]blobclient.Client, error) {
	g := r.g
	g.mu.Lock()
	defer g.mu.Unlock()
	// resolve scripts are per dependency (shared by the tasks that list it)
	s := g.stepLocked("resolve/"+d.Hex(), g.spec.Resolve[d.Hex()], "ok")
	g.logLocked(event{Kind: "resolve", Dep: d.Hex(), Result: s})
	if s == "err" {
		return nil, errors.New("scripted resolve error")
	}
	return append([]blobclient.Client(nil), r.clients...), nil
}

// --- executor observer

type obsExecutor struct {
	g    *rigT
	real persistedretry.Executor
}

func (e *obsExecutor) Name() string { return e.real.Name() }

func (e *obsExecutor) Exec(t persistedretry.Task) error {
	tag := "?"
	if rt, ok := t.(*tagreplication.Task); ok {
		tag = rt.Tag
	}
	g := e.g
	g.mu.Lock()
	g.execs[tag]++
	g.active[tag]++
	if g.active[tag] > 1 {
		g.overlap = true
	}
	g.logLocked(event{Kind: "exec_start", Tag: tag})
	g.mu.Unlock()
	err := e.real.Exec(t)
	g.mu.Lock()
	g.active[tag]--
	res := "ok"
	if err != nil {
		res = "err: " + err.Error()
		if len(res) > 160 {
			res = res[:160]
		}
	}
	g.logLocked(event{Kind: "exec_end", Tag: tag, Result: res})
	g.mu.Unlock()
	select {
	case g.execCh <- struct{}{}:
	default:
	}
	return err
}

// ---------------------------------------------------------------------------
// oracle

type finding struct {
	Sig  string `json:"signature"`
	What string `json:"what"`
}

func judge(g *rigT) (out []finding, execs int, puts int, nontrivial bool) {
	g.mu.Lock()
	defer g.mu.Unlock()
	if g.overlap {
		return nil, 0, 0, false
	}
	add := func(sig, f string, a ...interface{}) { out = append(out, finding{sig, fmt.Sprintf(f, a...)}) }
	for tag, t := range g.tasks {
		type execState struct {
			okDeps    map[string]bool
			failedDep string
			originRes string
			putOK     bool
			hasTrue   bool
			anyFail   bool
		}
		var cur *execState
		for _, e := range g.events {
			if e.Tag != tag {
				continue
			}
			switch e.Kind {
			case "exec_start":
				cur = &execState{okDeps: map[string]bool{}}
				execs++
			case "exec_end":
				if cur == nil {
					continue
				}
				if e.Result == "ok" && !cur.putOK && !cur.hasTrue {
					add("exec-success-without-remote-tag", "tag %s: Exec returned nil although the remote neither had the tag nor accepted a put in that execution", tag)
				}
				if cur.anyFail {
					nontrivial = true
				}
				cur = nil
			case "has":
				if cur != nil {
					cur.hasTrue = e.Result == "true"
					if e.Result == "err" {
						cur.anyFail = true
					}
				}
			case "origin":
				if cur != nil {
					cur.originRes = e.Result
					if e.Result == "err" {
						cur.anyFail = true
					}
				}
			case "replicate":
				if cur == nil {
					add("replicate-outside-execution", "tag %s: ReplicateToRemote observed outside any execution", tag)
					continue
				}
				if e.Result == "ok" {
					cur.okDeps[e.Dep] = true
					if e.Arg != cur.originRes {
						add("replicate-to-wrong-remote", "tag %s dep %s replicated to %q, remote build-index reported origin %q", tag, short(e.Dep), e.Arg, cur.originRes)
					}
				} else {
					cur.anyFail = true
				}
			case "put":
				puts++
				if cur == nil {
					add("put-outside-execution", "tag %s: PutAndReplicate observed outside any execution", tag)
					continue
				}
				// what has to be in the remote origin cluster is decided by the
				// digest actually PUT (per-digest dependency table of the harness),
				// not by what the task object lists
				required, known := t.Deps, e.Arg == t.Digest
				if t.Repush != nil && e.Arg == t.Repush.Digest {
					required, known = t.Repush.Deps, true
				}
				if !known {
					add("put-with-wrong-digest", "tag %s put with digest %s which was never pushed for it (pushed: %s)", tag, short(e.Arg), short(t.Digest))
				}
				var missing []string
				for _, d := range required {
					if !cur.okDeps[d] {
						missing = append(missing, short(d))
					}
				}
				if known && len(missing) > 0 {
					add("put-before-dependencies-replicated", "tag %s: PutAndReplicate of digest %s (event %d) without a successful ReplicateToRemote in the same execution for its dependencies %v", tag, short(e.Arg), e.Seq, missing)
				}
				if cur.originRes == "" || cur.originRes == "err" {
					add("put-without-remote-origin", "tag %s: PutAndReplicate in an execution whose remote origin lookup had not succeeded", tag)
				}
				if e.Result == "ok" {
					cur.putOK = true
				} else {
					cur.anyFail = true
				}
			}
		}
	}
	return out, execs, puts, nontrivial
}

// ---------------------------------------------------------------------------

var dbMu sync.Mutex // goose keeps its dialect in a package global

func openDB(t *testing.T, path string) *dbHandle {
	dbMu.Lock()
	defer dbMu.Unlock()
	db, err := localdb.New(localdb.Config{Source: path})
	if err != nil {
		t.Fatalf("localdb: %v", err)
	}
	return &dbHandle{db: db}
}

type dbHandle struct{ db *sqlx.DB }

func (h *dbHandle) close() { _ = h.db.Close() }

type outcome struct {
	spec       caseSpec
	findings   []finding
	events     []event
	execs      int
	puts       int
	nontrivial bool
	inconcl    string
	overlap    bool
	restarted  bool
	leftover   int
	rerun      bool
}

func runCase(t *testing.T, dir string, c caseSpec, attempt int) *outcome {
	g := newRig(c)
	h := openDB(t, filepath.Join(dir, fmt.Sprintf("case-%d-%d.db", c.ID, attempt)))
	defer h.close()

	remotesCfg := tagreplication.RemotesConfig{}
	for _, ts := range c.Tasks {
		remotesCfg[ts.Dest] = []string{".*"}
	}
	remotes, err := remotesCfg.Build()
	if err != nil {
		t.Fatalf("remotes: %v", err)
	}
	var clients []blobclient.Client
	for i := 0; i < c.Clients; i++ {
		clients = append(clients, &fakeOrigin{g: g, idx: i})
	}
	cluster := blobclient.NewClusterClient(&fakeResolver{g: g, clients: clients})
	real := tagreplication.NewExecutor(tally.NoopScope, cluster, &fakeProvider{g: g})
	cfg := persistedretry.Config{
		IncomingBuffer: 16, RetryBuffer: 16,
		NumIncomingWorkers: c.Workers[0], NumRetryWorkers: c.Workers[1],
		MaxTaskThroughput:   200 * time.Microsecond,
		RetryInterval:       time.Millisecond,
		PollRetriesInterval: 3 * time.Millisecond,
	}
	newManager := func() persistedretry.Manager {
		store, err := tagreplication.NewStore(h.db, remotes)
		if err != nil {
			t.Fatalf("store: %v", err)
		}
		m, err := persistedretry.NewManager(cfg, tally.NoopScope, store, &obsExecutor{g: g, real: real})
		if err != nil {
			t.Fatalf("manager: %v", err)
		}
		return m
	}
	m := newManager()
	addTask := func(tag, digest string, depHex []string, dest string, delay time.Duration) {
		d, err := core.NewSHA256DigestFromHex(digest)
		if err != nil {
			t.Fatalf("digest: %v", err)
		}
		var deps core.DigestList
		for _, x := range depHex {
			dd, err := core.NewSHA256DigestFromHex(x)
			if err != nil {
				t.Fatalf("digest: %v", err)
			}
			deps = append(deps, dd)
		}
		if err := m.Add(tagreplication.NewTask(tag, d, deps, dest, delay)); err != nil {
			t.Fatalf("add: %v", err)
		}
		g.mu.Lock()
		g.logLocked(event{Kind: "push", Tag: tag, Arg: digest, Result: fmt.Sprintf("%d deps, delay %s", len(depHex), delay)})
		g.mu.Unlock()
	}
	repushed := map[string]bool{}
	for _, ts := range c.Tasks {
		addTask(ts.Tag, ts.Digest, ts.Deps, ts.Dest, time.Duration(ts.DelayMs)*time.Millisecond)
		if ts.Repush != nil && ts.Repush.When == "delayed" {
			// the tag is pushed again while the delayed task is still queued
			addTask(ts.Tag, ts.Repush.Digest, ts.Repush.Deps, ts.Dest, 0)
			repushed[ts.Tag] = true
		}
	}
	repushAfterFailure := func() {
		for _, ts := range c.Tasks {
			if ts.Repush == nil || ts.Repush.When != "after-failure" || repushed[ts.Tag] {
				continue
			}
			g.mu.Lock()
			failedOnce := false
			for _, e := range g.events {
				if e.Kind == "exec_end" && e.Tag == ts.Tag && e.Result != "ok" {
					failedOnce = true
				}
			}
			done := g.remote[ts.Tag]
			g.mu.Unlock()
			if failedOnce && !done {
				addTask(ts.Tag, ts.Repush.Digest, ts.Repush.Deps, ts.Dest, 0)
				repushed[ts.Tag] = true
			}
		}
	}
	o := &outcome{spec: c}
	// bounded progress: every scripted failure can spoil at most one execution
	// per task; the watchdog is generous and its expiry is inconclusive.
	allDone := func() bool {
		g.mu.Lock()
		defer g.mu.Unlock()
		for tag := range g.tasks {
			if !g.remote[tag] {
				return false
			}
		}
		return true
	}
	totalExecs := func() int {
		g.mu.Lock()
		defer g.mu.Unlock()
		n := 0
		for _, k := range g.execs {
			n += k
		}
		return n
	}
	// a task that is gone from the store while its remote still lacks the tag
	// can never be retried: a logical end, no need to wait for the watchdog.
	// (The remote is marked before the manager removes the task, so "absent
	// from the store" read first and "remote lacks the tag" read second is a
	// sound observation.)
	checkStore, err := tagreplication.NewStore(h.db, remotes)
	if err != nil {
		t.Fatalf("store: %v", err)
	}
	dropped := func() bool {
		pend, err1 := checkStore.GetPending()
		failed, err2 := checkStore.GetFailed()
		if err1 != nil || err2 != nil {
			return false
		}
		in := map[string]bool{}
		for _, x := range append(pend, failed...) {
			in[x.(*tagreplication.Task).Tag] = true
		}
		g.mu.Lock()
		defer g.mu.Unlock()
		for tag := range g.tasks {
			if !in[tag] && !g.remote[tag] {
				return true
			}
		}
		return false
	}
	deadline := time.Now().Add(90 * time.Second)
	lastStoreCheck := time.Now()
	for !allDone() {
		repushAfterFailure()
		if time.Since(lastStoreCheck) > 150*time.Millisecond {
			lastStoreCheck = time.Now()
			if dropped() {
				break
			}
		}
		if c.RestartAt > 0 && !o.restarted && totalExecs() >= c.RestartAt {
			m.Close()
			m = newManager()
			o.restarted = true
		}
		if time.Now().After(deadline) {
			o.inconcl = "watchdog: not every remote holds its tag after 90 s"
			break
		}
		select {
		case <-g.execCh:
		case <-time.After(20 * time.Millisecond):
		}
	}
	m.Close()
	// the store after the run
	store, err := tagreplication.NewStore(h.db, remotes)
	if err != nil {
		t.Fatalf("store: %v", err)
	}
	pend, _ := store.GetPending()
	failed, _ := store.GetFailed()
	inStore := map[string]bool{}
	for _, x := range append(pend, failed...) {
		inStore[x.(*tagreplication.Task).Tag] = true
	}
	o.leftover = len(inStore)
	o.findings, o.execs, o.puts, o.nontrivial = judge(g)
	g.mu.Lock()
	o.overlap = g.overlap
	for tag := range g.tasks {
		if !g.remote[tag] && !inStore[tag] {
			// nothing left that could ever retry it: a logical, not a timing, failure
			o.findings = append(o.findings, finding{"task-dropped-before-remote-holds-tag",
				fmt.Sprintf("tag %s: the remote does not hold the tag and the task is no longer in the retry store", tag)})
			o.inconcl = ""
		}
	}
	o.events = g.events
	g.mu.Unlock()
	return o
}

func TestC33(t *testing.T) {
	run := ev.Start(t, "C33", "fault_enumeration",
		"PRNG-generated scripted fault sequences for 1-3 concurrent tag replication tasks (0-4 dependencies, some shared; optional task delay) run by the real retry manager (1-3 incoming / 1-2 retry workers, "+
			"optional manager restart after k executions): per dependency and origin client 0-2 scripted answers from {network error, 500/502/503/504, 404/400/409, 202 (<=2 per case), ok}, resolver errors, "+
			"remote Has errors, remote Origin errors, 0-3 remote PutAndReplicate failures, remote already holding the tag. A case is non-trivial when at least one execution met a scripted failure; distinct = distinct case description. "+
			"End-to-end phase: 2-3 concurrent tasks sharing a dependency blob replicated through a REAL local origin blobserver (real CAStore, real replicate-to-remote handler and HTTP cluster provider) to a fake remote origin whose upload commits are held open and released in PRNG order or fail once, "+
			"and a fake remote build-index; non-trivial when a commit of a blob arrived while another commit of the same blob was held, or an upload failed.")
	defer run.Finish()
	run.Assume("remote build-index and origin clients are scripted fakes at the outer boundary; a remote Has answer is truthful unless scripted to fail; scripts are finite so every task can finish")
	run.Assume("end-to-end phase: the remote origin cluster is one httptest host speaking blobclient's chunked upload protocol; the remote build-index is a fake that judges every put against the uploads completed so far; held commits are released every ~12 ms of real time in PRNG order")
	run.Assume("the retry manager has no clock seam: it runs on real time with 1-3 ms intervals; progress bounds (watchdog 90 s per case) are inconclusive, never violations")

	r := run.Rand("cases")
	rrp := run.Rand("repush")
	n := run.N(500, 10000)
	cases := make([]caseSpec, n)
	for i := range cases {
		cases[i] = genCase(r, i)
		if rrp.Intn(5) == 0 {
			addRepush(rrp, &cases[i])
		}
	}
	dir := ev.TempDir(t, "c33-")
	const workers = 16
	outcomes := make([]*outcome, n)
	replay := run.ReplayCase()
	var wg sync.WaitGroup
	for wi := 0; wi < workers; wi++ {
		wg.Add(1)
		go func(wi int) {
			defer wg.Done()
			for i := wi; i < n; i += workers {
				if replay != "" && replay != strconv.Itoa(i) {
					continue
				}
				o := runCase(t, dir, cases[i], 0)
				if o.inconcl != "" {
					// a tripped progress bound is repeated once with a fresh schedule
					if o2 := runCase(t, dir, cases[i], 1); o2.inconcl == "" {
						o2.rerun = true
						o = o2
					}
				}
				outcomes[i] = o
			}
		}(wi)
	}
	wg.Wait()

	inconcl := 0
	for i, o := range outcomes {
		if o == nil {
			continue
		}
		if o.overlap {
			run.Count("cases_with_overlapping_executions_not_judged", 1)
		}
		run.Case(ev.JSON(o.spec), o.nontrivial)
		run.Count("executions", int64(o.execs))
		run.Count("put_events", int64(o.puts))
		run.Count("events", int64(len(o.events)))
		run.Count("tasks", int64(len(o.spec.Tasks)))
		for _, e := range o.events {
			if e.Kind == "push" {
				run.Count("pushes", 1)
			}
		}
		for _, ts := range o.spec.Tasks {
			if ts.Repush != nil {
				run.Count("cases_with_repush_of_a_queued_tag_"+ts.Repush.When, 1)
			}
		}
		if o.restarted {
			run.Count("manager_restarts", 1)
		}
		if o.rerun {
			run.Count("cases_repeated_after_watchdog", 1)
		}
		if o.leftover > 0 {
			run.Count("tasks_left_in_store_at_end", int64(o.leftover))
		}
		for _, e := range o.events {
			if e.Kind == "replicate" {
				run.Count("replicate_"+e.Result, 1)
			}
		}
		var shape []string
		for _, e := range o.events {
			if e.Kind == "exec_end" {
				shape = append(shape, strings.SplitN(e.Result, ":", 2)[0])
			}
		}
		run.Distinct("execution_outcome_sequences", strings.Join(shape, ","))
		if run.WantSample() && i%97 == 0 {
			evs := o.events
			if len(evs) > 40 {
				evs = evs[:40]
			}
			run.Sample(map[string]interface{}{"case": o.spec, "first_events": evs, "executions": o.execs})
		}
		if o.inconcl != "" {
			inconcl++
			if inconcl <= 3 {
				run.Inconclusive(fmt.Sprintf("case %d: %s", i, o.inconcl))
			}
		}
		seen := map[string]bool{}
		for _, f := range o.findings {
			if seen[f.Sig] {
				continue
			}
			seen[f.Sig] = true
			run.Violation(f.Sig, strconv.Itoa(i), map[string]interface{}{"case": o.spec, "what": f.What, "all_findings": o.findings, "events": o.events})
		}
	}

	// second phase: the origin side of the chain is real (see e2e_test.go)
	runE2EPhase(t, run)
}
