// C33, end-to-end phase: the origin side of the chain is real.
//
// real tagreplication.Executor (under the real retry manager)
//
//	-> real blobclient.ClusterClient (real resolver, real HTTP client)
//	-> REAL local origin blobserver (real CAStore holding the dependency blobs),
//	   whose replicate-to-remote handler uses the real HTTPClusterProvider
//	-> fake REMOTE origin (httptest server speaking the chunked upload protocol;
//	   commits can be held open and released in PRNG order, or fail once; logs
//	   "blob fully received")
//	and a fake remote build-index (logs tag puts).
//
// Oracle over the single event log: at the moment a tag put arrives at the
// remote build-index every dependency of that tag has a completed upload at
// the remote origin.
package c33

import (
	"bytes"
	"fmt"
	"io"
	"math/rand"
	"net/http"
	"net/http/httptest"
	"path/filepath"
	"sort"
	"strconv"
	"strings"
	"sync"
	"testing"
	"time"

	"github.com/andres-erbsen/clock"
	"github.com/uber-go/tally"

	"github.com/uber/kraken/build-index/tagclient"
	"github.com/uber/kraken/core"
	"github.com/uber/kraken/lib/backend"
	"github.com/uber/kraken/lib/blobrefresh"
	"github.com/uber/kraken/lib/hashring"
	"github.com/uber/kraken/lib/healthcheck"
	"github.com/uber/kraken/lib/hostlist"
	"github.com/uber/kraken/lib/metainfogen"
	"github.com/uber/kraken/lib/persistedretry"
	"github.com/uber/kraken/lib/persistedretry/tagreplication"
	"github.com/uber/kraken/lib/store"
	"github.com/uber/kraken/origin/blobclient"
	"github.com/uber/kraken/origin/blobserver"

	"verif/harness/internal/ev"
)

// ---------------------------------------------------------------------------
// case description

type e2eTask struct {
	Tag     string `json:"tag"`
	Digest  string `json:"digest"`
	Deps    []int  `json:"deps"` // indices into Blobs
	DelayMs int    `json:"delay_ms,omitempty"`
	// Repush: the same tag is pushed again (other digest, other dependency
	// list) right after the delayed first task was queued.
	Repush *e2eRepush `json:"repush,omitempty"`
}

type e2eRepush struct {
	Digest string `json:"digest"`
	Deps   []int  `json:"deps"`
}

type e2eCase struct {
	ID        int       `json:"id"`
	BlobSizes []int     `json:"blob_sizes"`
	BlobSeeds []int64   `json:"blob_seeds"`
	Tasks     []e2eTask `json:"tasks"`
	// per blob: how its commits at the remote origin behave, per arrival
	Hold     [][]bool `json:"hold"`      // arrival k of blob b is held open until released
	FailOnce []bool   `json:"fail_once"` // the first commit of blob b answers 500
	// Lose: the remote origin loses the first upload of blob b (upload dir wiped /
	// stale upload cleaned): "commit404" = after the last PATCH, the commit is
	// answered 404; "patch404" / "patch410" = the first PATCH is answered so.
	Lose    []string `json:"lose_upload"`
	RelSeed int64    `json:"release_seed"`
	Workers int      `json:"workers"`
}

func genE2E(r *rand.Rand, id int) e2eCase {
	c := e2eCase{ID: id, RelSeed: r.Int63(), Workers: 2 + r.Intn(2)}
	nb := 2 + r.Intn(3)
	for b := 0; b < nb; b++ {
		c.BlobSizes = append(c.BlobSizes, 1+r.Intn(5000))
		c.BlobSeeds = append(c.BlobSeeds, r.Int63())
		var h []bool
		for k := 0; k < 6; k++ {
			h = append(h, r.Intn(10) < 6)
		}
		c.Hold = append(c.Hold, h)
		c.FailOnce = append(c.FailOnce, r.Intn(5) == 0)
		lose := ""
		switch p := r.Intn(20); {
		case p < 4:
			lose = "commit404"
		case p == 4:
			lose = "patch404"
		case p == 5:
			lose = "patch410"
		}
		c.Lose = append(c.Lose, lose)
	}
	nt := 2 + r.Intn(2)
	shared := r.Intn(nb) // every task depends on this blob
	for ti := 0; ti < nt; ti++ {
		t := e2eTask{Tag: fmt.Sprintf("e2e%d/img-%d:v%d", id, ti, r.Intn(100)), Digest: hex64(r)}
		deps := map[int]bool{shared: true}
		for k := r.Intn(3); k > 0; k-- {
			deps[r.Intn(nb)] = true
		}
		for b := range deps {
			t.Deps = append(t.Deps, b)
		}
		sort.Ints(t.Deps)
		// the shared blob comes first or last, so that requests for it from
		// different tasks meet at the origin
		if r.Intn(2) == 0 {
			for i, b := range t.Deps {
				if b == shared {
					t.Deps[0], t.Deps[i] = t.Deps[i], t.Deps[0]
				}
			}
		}
		c.Tasks = append(c.Tasks, t)
	}
	if r.Intn(4) == 0 {
		// one tag is pushed twice; the second image has a layer of its own
		c.BlobSizes = append(c.BlobSizes, 1+r.Intn(3000))
		c.BlobSeeds = append(c.BlobSeeds, r.Int63())
		c.Hold = append(c.Hold, []bool{false, r.Intn(2) == 0})
		c.FailOnce = append(c.FailOnce, false)
		c.Lose = append(c.Lose, "")
		t := &c.Tasks[r.Intn(len(c.Tasks))]
		t.DelayMs = 30 + r.Intn(30)
		t.Repush = &e2eRepush{Digest: hex64(r), Deps: []int{nb}}
		if r.Intn(2) == 0 {
			t.Repush.Deps = append(t.Repush.Deps, shared)
		}
	}
	return c
}

// ---------------------------------------------------------------------------
// rig of one worker: real local origin + fake remote origin, reused by cases

type e2eEvent struct {
	Seq    int    `json:"seq"`
	Kind   string `json:"kind"` // upload_start upload_commit blob_received upload_failed release put has exec_start exec_end
	Blob   string `json:"blob,omitempty"`
	Tag    string `json:"tag,omitempty"`
	Result string `json:"result,omitempty"`
}

type heldCommit struct {
	blob string
	ch   chan struct{}
}

type e2eState struct {
	mu       sync.Mutex
	spec     e2eCase
	events   []e2eEvent
	blobs    map[string][]byte // hex -> content (the case's blobs)
	index    map[string]int    // hex -> blob index
	present  map[string]bool   // completed uploads at the remote origin
	arrivals map[string]int
	failed   map[string]bool
	uploads  map[string]*bytes.Buffer // uid -> received bytes
	held     []*heldCommit
	tags     map[string]bool
	deps     map[string][]string // manifest digest hex -> dependency blob hexes (per-digest table)
	pushed   map[string][]string // tag -> digests pushed for it
	lost     map[string]bool
	findings []finding
	execCh   chan struct{}
	nextUID  int
}

func (s *e2eState) logLocked(e e2eEvent) {
	e.Seq = len(s.events)
	s.events = append(s.events, e)
}

type e2eRig struct {
	t          *testing.T
	local      *httptest.Server
	localAddr  string
	remote     *httptest.Server
	remoteAddr string
	cas        *store.CAStore
	mu         sync.Mutex
	cur        *e2eState
}

type nopRetryManager struct{}

func (nopRetryManager) Add(persistedretry.Task) error                   { return nil }
func (nopRetryManager) SyncExec(persistedretry.Task) error              { return nil }
func (nopRetryManager) Close()                                          {}
func (nopRetryManager) Find(interface{}) ([]persistedretry.Task, error) { return nil, nil }

func newE2ERig(t *testing.T, dir string) *e2eRig {
	g := &e2eRig{t: t}
	g.remote = httptest.NewServer(http.HandlerFunc(g.remoteOrigin))
	g.remoteAddr = strings.TrimPrefix(g.remote.URL, "http://")

	cas, err := store.NewCAStore(store.CAStoreConfig{
		UploadDir: filepath.Join(dir, "upload"), CacheDir: filepath.Join(dir, "cache"),
		UploadCleanup: store.CleanupConfig{Disabled: true}, CacheCleanup: store.CleanupConfig{Disabled: true},
	}, tally.NoopScope)
	if err != nil {
		t.Fatalf("ca store: %v", err)
	}
	g.cas = cas
	ts := httptest.NewUnstartedServer(nil)
	g.localAddr = ts.Listener.Addr().String()
	ring := hashring.New(hashring.Config{MaxReplica: 1}, hostlist.Fixture(g.localAddr), healthcheck.IdentityFilter{}, tally.NoopScope)
	bm := backend.ManagerFixture()
	mg := metainfogen.Fixture(cas, 256)
	br := blobrefresh.New(blobrefresh.Config{}, tally.NoopScope, cas, bm, mg)
	srv, err := blobserver.New(blobserver.Config{}, tally.NoopScope, clock.New(), g.localAddr, ring, cas,
		blobclient.NewProvider(), blobclient.NewClusterProvider(blobclient.WithChunkSize(1024)),
		core.PeerContextFixture(), bm, br, mg, nopRetryManager{})
	if err != nil {
		t.Fatalf("blobserver: %v", err)
	}
	ts.Config.Handler = srv.Handler()
	ts.Start()
	g.local = ts
	return g
}

func (g *e2eRig) close() {
	g.local.Close()
	g.remote.Close()
	g.cas.Close()
}

// remoteOrigin is the fake remote origin cluster (one host): locations and the
// chunked upload protocol of blobclient.
func (g *e2eRig) remoteOrigin(w http.ResponseWriter, r *http.Request) {
	g.mu.Lock()
	s := g.cur
	g.mu.Unlock()
	p := r.URL.Path
	if strings.HasPrefix(p, "/blobs/") && strings.HasSuffix(p, "/locations") {
		w.Header().Set("Origin-Locations", g.remoteAddr)
		w.WriteHeader(200)
		return
	}
	if s == nil {
		http.Error(w, "no case", http.StatusGone)
		return
	}
	i := strings.Index(p, "/blobs/")
	if !strings.HasPrefix(p, "/namespace/") || i < 0 {
		http.Error(w, "bad path", 400)
		return
	}
	rest := strings.Split(strings.TrimPrefix(p[i+len("/blobs/"):], "sha256:"), "/")
	hex := rest[0]
	s.mu.Lock()
	_, known := s.blobs[hex]
	s.mu.Unlock()
	if !known {
		http.Error(w, "blob of another case", http.StatusGone)
		return
	}
	switch {
	case r.Method == "POST" && len(rest) == 2 && rest[1] == "uploads":
		s.mu.Lock()
		s.nextUID++
		uid := fmt.Sprintf("u%d", s.nextUID)
		s.uploads[uid] = &bytes.Buffer{}
		s.logLocked(e2eEvent{Kind: "upload_start", Blob: hex, Result: uid})
		s.mu.Unlock()
		w.Header().Set("Location", uid)
		w.WriteHeader(200)
	case r.Method == "PATCH" && len(rest) == 3:
		b, _ := io.ReadAll(r.Body)
		s.mu.Lock()
		mode := s.spec.Lose[s.index[hex]]
		if strings.HasPrefix(mode, "patch") && !s.lost[hex] {
			s.lost[hex] = true
			delete(s.uploads, rest[2])
			s.logLocked(e2eEvent{Kind: "upload_lost", Blob: hex, Result: rest[2] + " " + mode})
			s.mu.Unlock()
			code, _ := strconv.Atoi(mode[len("patch"):])
			http.Error(w, "upload not found", code)
			return
		}
		buf := s.uploads[rest[2]]
		if buf != nil {
			buf.Write(b)
		}
		s.mu.Unlock()
		if buf == nil {
			http.Error(w, "upload not found", 404)
			return
		}
		w.WriteHeader(200)
	case r.Method == "PUT" && len(rest) == 3:
		uid := rest[2]
		s.mu.Lock()
		k := s.arrivals[hex]
		s.arrivals[hex]++
		bi := s.index[hex]
		if s.spec.Lose[bi] == "commit404" && !s.lost[hex] {
			// the upload vanished between its last PATCH and this commit
			s.lost[hex] = true
			delete(s.uploads, uid)
			s.logLocked(e2eEvent{Kind: "upload_lost", Blob: hex, Result: uid + " commit404"})
			s.mu.Unlock()
			http.Error(w, "upload not found", 404)
			return
		}
		fail := s.spec.FailOnce[bi] && !s.failed[hex]
		if fail {
			s.failed[hex] = true
		}
		hold := k < len(s.spec.Hold[bi]) && s.spec.Hold[bi][k]
		var hc *heldCommit
		if hold {
			hc = &heldCommit{blob: hex, ch: make(chan struct{})}
			s.held = append(s.held, hc)
		}
		s.logLocked(e2eEvent{Kind: "upload_commit", Blob: hex, Result: fmt.Sprintf("uid=%s held=%v fail=%v", uid, hold, fail)})
		s.mu.Unlock()
		if hc != nil {
			select {
			case <-hc.ch:
			case <-time.After(20 * time.Second):
			}
		}
		s.mu.Lock()
		defer s.mu.Unlock()
		if fail {
			s.logLocked(e2eEvent{Kind: "upload_failed", Blob: hex, Result: uid})
			http.Error(w, "scripted commit failure", 500)
			return
		}
		buf := s.uploads[uid]
		if buf == nil || !bytes.Equal(buf.Bytes(), s.blobs[hex]) {
			s.logLocked(e2eEvent{Kind: "upload_failed", Blob: hex, Result: uid + " content mismatch"})
			http.Error(w, "content mismatch", 400)
			return
		}
		s.present[hex] = true
		s.logLocked(e2eEvent{Kind: "blob_received", Blob: hex, Result: uid})
		w.WriteHeader(200)
	default:
		http.Error(w, "unsupported", 400)
	}
}

// remote build-index fake

type e2eRemoteIndex struct {
	s      *e2eState
	origin string
}

func (p *e2eRemoteIndex) Provide(addr string) tagclient.Client {
	return &e2eTagClient{fakeRemote: fakeRemote{}, p: p}
}

// e2eTagClient borrows the unscripted methods of fakeRemote.
type e2eTagClient struct {
	fakeRemote
	p *e2eRemoteIndex
}

func (c *e2eTagClient) Has(tag string) (bool, error) {
	s := c.p.s
	s.mu.Lock()
	defer s.mu.Unlock()
	s.logLocked(e2eEvent{Kind: "has", Tag: tag, Result: strconv.FormatBool(s.tags[tag])})
	return s.tags[tag], nil
}

func (c *e2eTagClient) Origin() (string, error) { return c.p.origin, nil }

func (c *e2eTagClient) PutAndReplicate(tag string, d core.Digest) error {
	s := c.p.s
	s.mu.Lock()
	defer s.mu.Unlock()
	// the required blobs are those of the digest actually put (per-digest table)
	required, known := s.deps[d.Hex()]
	if !known {
		s.logLocked(e2eEvent{Kind: "put", Tag: tag, Result: "unknown digest " + short(d.Hex())})
		s.findings = append(s.findings, finding{"put-with-wrong-digest", fmt.Sprintf("tag %s put with digest %s which was never pushed (pushed: %v)", tag, short(d.Hex()), s.pushed[tag])})
		return fmt.Errorf("unknown manifest")
	}
	var missing []string
	for _, dep := range required {
		if !s.present[dep] {
			missing = append(missing, short(dep))
		}
	}
	if len(missing) > 0 {
		s.logLocked(e2eEvent{Kind: "put", Tag: tag, Result: "dependencies not uploaded: " + strings.Join(missing, ",")})
		s.findings = append(s.findings, finding{"tag-put-before-remote-upload-completed",
			fmt.Sprintf("tag %s -> %s was put on the remote build-index while no upload of its dependency %v had completed at the remote origin cluster", tag, short(d.Hex()), missing)})
		// what a real build-index answers when a dependency is missing
		return fmt.Errorf("cannot upload tag, missing dependency %v", missing)
	}
	s.tags[tag] = true
	s.logLocked(e2eEvent{Kind: "put", Tag: tag, Result: "ok " + short(d.Hex())})
	return nil
}

type e2eObsExecutor struct {
	s    *e2eState
	real persistedretry.Executor
}

func (e *e2eObsExecutor) Name() string { return e.real.Name() }
func (e *e2eObsExecutor) Exec(t persistedretry.Task) error {
	tag := t.(*tagreplication.Task).Tag
	e.s.mu.Lock()
	e.s.logLocked(e2eEvent{Kind: "exec_start", Tag: tag})
	e.s.mu.Unlock()
	err := e.real.Exec(t)
	e.s.mu.Lock()
	res := "ok"
	if err != nil {
		res = "err: " + err.Error()
		if len(res) > 200 {
			res = res[:200]
		}
	}
	e.s.logLocked(e2eEvent{Kind: "exec_end", Tag: tag, Result: res})
	e.s.mu.Unlock()
	select {
	case e.s.execCh <- struct{}{}:
	default:
	}
	return err
}

type e2eOutcome struct {
	spec        e2eCase
	events      []e2eEvent
	findings    []finding
	inconcl     string
	heldSeen    int
	overlapping int // commits that arrived while another commit of the same blob was held
	puts        int
	execs       int
	failedUp    int
	lostUp      int
	pushes      int
	received    int
}

func runE2E(t *testing.T, g *e2eRig, h *dbHandle, c e2eCase) *e2eOutcome {
	s := &e2eState{spec: c, blobs: map[string][]byte{}, index: map[string]int{}, present: map[string]bool{}, arrivals: map[string]int{},
		failed: map[string]bool{}, uploads: map[string]*bytes.Buffer{}, tags: map[string]bool{}, deps: map[string][]string{}, pushed: map[string][]string{}, lost: map[string]bool{}, execCh: make(chan struct{}, 256)}
	var digests []core.Digest
	local := blobclient.New(g.localAddr)
	for b := range c.BlobSizes {
		content := make([]byte, c.BlobSizes[b])
		rand.New(rand.NewSource(c.BlobSeeds[b])).Read(content)
		d, err := core.NewDigester().FromBytes(content)
		if err != nil {
			t.Fatalf("digest: %v", err)
		}
		digests = append(digests, d)
		s.blobs[d.Hex()] = content
		s.index[d.Hex()] = b
		// the local origin cluster holds every dependency blob
		if err := local.TransferBlob(d, bytes.NewReader(content), uint64(len(content))); err != nil {
			t.Fatalf("seed local origin: %v", err)
		}
	}
	for _, ts := range c.Tasks {
		s.deps[ts.Digest] = []string{}
		for _, b := range ts.Deps {
			s.deps[ts.Digest] = append(s.deps[ts.Digest], digests[b].Hex())
		}
		s.pushed[ts.Tag] = append(s.pushed[ts.Tag], short(ts.Digest))
		if ts.Repush != nil {
			s.deps[ts.Repush.Digest] = []string{}
			for _, b := range ts.Repush.Deps {
				s.deps[ts.Repush.Digest] = append(s.deps[ts.Repush.Digest], digests[b].Hex())
			}
			s.pushed[ts.Tag] = append(s.pushed[ts.Tag], short(ts.Repush.Digest))
		}
	}
	g.mu.Lock()
	g.cur = s
	g.mu.Unlock()
	defer func() {
		g.mu.Lock()
		g.cur = nil
		g.mu.Unlock()
	}()

	const dest = "remote-build-index:80"
	// h: the sqlite task store file is shared by the cases of one worker (tags are unique per case)
	remotes, err := tagreplication.RemotesConfig{dest: []string{".*"}}.Build()
	if err != nil {
		t.Fatalf("remotes: %v", err)
	}
	cluster := blobclient.NewClusterClient(blobclient.NewClientResolver(blobclient.NewProvider(), hostlist.Fixture(g.localAddr)))
	real := tagreplication.NewExecutor(tally.NoopScope, cluster, &e2eRemoteIndex{s: s, origin: g.remoteAddr})
	st, err := tagreplication.NewStore(h.db, remotes)
	if err != nil {
		t.Fatalf("store: %v", err)
	}
	m, err := persistedretry.NewManager(persistedretry.Config{
		IncomingBuffer: 16, RetryBuffer: 16, NumIncomingWorkers: c.Workers, NumRetryWorkers: 2,
		MaxTaskThroughput: 200 * time.Microsecond, RetryInterval: time.Millisecond, PollRetriesInterval: 3 * time.Millisecond,
	}, tally.NoopScope, st, &e2eObsExecutor{s: s, real: real})
	if err != nil {
		t.Fatalf("manager: %v", err)
	}
	push := func(tag, digest string, blobs []int, delay time.Duration) {
		d, _ := core.NewSHA256DigestFromHex(digest)
		var deps core.DigestList
		for _, b := range blobs {
			deps = append(deps, digests[b])
		}
		if err := m.Add(tagreplication.NewTask(tag, d, deps, dest, delay)); err != nil {
			t.Fatalf("add: %v", err)
		}
		s.mu.Lock()
		s.logLocked(e2eEvent{Kind: "push", Tag: tag, Result: fmt.Sprintf("%s deps=%v delay=%s", short(digest), blobs, delay)})
		s.mu.Unlock()
	}
	for _, ts := range c.Tasks {
		push(ts.Tag, ts.Digest, ts.Deps, time.Duration(ts.DelayMs)*time.Millisecond)
		if ts.Repush != nil {
			push(ts.Tag, ts.Repush.Digest, ts.Repush.Deps, 0)
		}
	}

	// controller: let the system run into its holds, then release one held
	// commit chosen by the PRNG; repeat until every tag is on the remote.
	rr := rand.New(rand.NewSource(c.RelSeed))
	o := &e2eOutcome{spec: c}
	done := func() bool {
		s.mu.Lock()
		defer s.mu.Unlock()
		if len(s.findings) > 0 {
			return true
		}
		for _, ts := range c.Tasks {
			if !s.tags[ts.Tag] {
				return false
			}
		}
		return true
	}
	deadline := time.Now().Add(60 * time.Second)
	for !done() {
		if time.Now().After(deadline) {
			o.inconcl = "watchdog: not every tag reached the remote build-index within 60 s"
			break
		}
		time.Sleep(12 * time.Millisecond) // settle: requests meet at the origin while commits are held
		s.mu.Lock()
		if n := len(s.held); n > 0 {
			k := rr.Intn(n)
			hc := s.held[k]
			s.held = append(s.held[:k], s.held[k+1:]...)
			s.logLocked(e2eEvent{Kind: "release", Blob: hc.blob})
			close(hc.ch)
		}
		s.mu.Unlock()
	}
	// release whatever is still held and stop
	s.mu.Lock()
	for _, hc := range s.held {
		close(hc.ch)
	}
	s.held = nil
	s.mu.Unlock()
	m.Close()

	s.mu.Lock()
	defer s.mu.Unlock()
	o.events = append([]e2eEvent(nil), s.events...)
	o.findings = append([]finding(nil), s.findings...)
	heldNow := map[string]int{}
	for _, e := range o.events {
		switch e.Kind {
		case "upload_commit":
			if heldNow[e.Blob] > 0 {
				o.overlapping++
			}
			if strings.Contains(e.Result, "held=true") {
				o.heldSeen++
				heldNow[e.Blob]++
			}
		case "release":
			heldNow[e.Blob]--
		case "put":
			o.puts++
		case "exec_start":
			o.execs++
		case "upload_failed":
			o.failedUp++
		case "upload_lost":
			o.lostUp++
		case "push":
			o.pushes++
		case "blob_received":
			o.received++
		}
	}
	return o
}

// runE2EPhase runs the end-to-end cases and reports them into run.
func runE2EPhase(t *testing.T, run *ev.Run) {
	t0 := time.Now()
	defer func() { run.Set("e2e_phase_wall_s", time.Since(t0).Seconds()) }()
	r := run.Rand("e2e")
	n := run.N(56, 1500)
	cases := make([]e2eCase, n)
	for i := range cases {
		cases[i] = genE2E(r, i)
	}
	dir := ev.TempDir(t, "c33e2e-")
	const workers = 12
	outcomes := make([]*e2eOutcome, n)
	replay := run.ReplayCase()
	var wg sync.WaitGroup
	for wi := 0; wi < workers; wi++ {
		wg.Add(1)
		go func(wi int) {
			defer wg.Done()
			g := newE2ERig(t, filepath.Join(dir, fmt.Sprintf("w%d", wi)))
			defer g.close()
			h := openDB(t, filepath.Join(dir, fmt.Sprintf("w%d.db", wi)))
			defer h.close()
			for i := wi; i < n; i += workers {
				if replay != "" && replay != "e2e-"+strconv.Itoa(i) {
					continue
				}
				o := runE2E(t, g, h, cases[i])
				if o.inconcl != "" {
					// a tripped progress bound is repeated once (leftover tasks of the
					// first run are no-ops: their tags get new names)
					c2 := cases[i]
					c2.Tasks = append([]e2eTask(nil), c2.Tasks...)
					for k := range c2.Tasks {
						c2.Tasks[k].Tag += "-again"
					}
					if o2 := runE2E(t, g, h, c2); o2.inconcl == "" {
						o2.spec = cases[i]
						o = o2
					}
				}
				outcomes[i] = o
			}
		}(wi)
	}
	wg.Wait()
	inconcl := 0
	for i, o := range outcomes {
		if o == nil {
			continue
		}
		// non-trivial: requests for one blob met at the origin (a commit arrived
		// while another commit of the same blob was held) or an upload failed
		run.Case("e2e:"+ev.JSON(o.spec), o.overlapping > 0 || o.failedUp > 0 || o.lostUp > 0 || o.pushes > len(o.spec.Tasks))
		run.Count("e2e_cases", 1)
		run.Count("e2e_executions", int64(o.execs))
		run.Count("e2e_tag_puts", int64(o.puts))
		run.Count("e2e_remote_uploads_completed", int64(o.received))
		run.Count("e2e_remote_uploads_failed", int64(o.failedUp))
		run.Count("e2e_remote_uploads_lost_before_commit_or_patch", int64(o.lostUp))
		run.Count("e2e_repushes_of_a_queued_tag", int64(o.pushes-len(o.spec.Tasks)))
		run.Count("e2e_commits_held", int64(o.heldSeen))
		run.Count("e2e_commits_arriving_while_same_blob_held", int64(o.overlapping))
		if o.overlapping > 0 {
			run.Count("e2e_cases_with_concurrent_uploads_of_one_blob", 1)
		}
		if run.WantSample() && i%31 == 0 {
			evs := o.events
			if len(evs) > 40 {
				evs = evs[:40]
			}
			run.Sample(map[string]interface{}{"phase": "e2e", "case": o.spec, "first_events": evs})
		}
		if o.inconcl != "" {
			inconcl++
			if inconcl <= 3 {
				run.Inconclusive(fmt.Sprintf("e2e case %d: %s", i, o.inconcl))
			}
		}
		seen := map[string]bool{}
		for _, f := range o.findings {
			if seen[f.Sig] {
				continue
			}
			seen[f.Sig] = true
			run.Violation(f.Sig, "e2e-"+strconv.Itoa(i), map[string]interface{}{"phase": "e2e", "case": o.spec, "what": f.What, "all_findings": o.findings, "events": o.events})
		}
	}
}
