// C34: HTTP retries resend the complete original request.
//
// History monitor over the real httputil.Send. Every case is a scripted fault
// sequence: a test server answers the k-th attempt from a script (connection
// closed before / after the body was read, FIN or RST, default-retryable
// status, extra retry code, non-retryable status, accepted status) and records
// what arrived (method, request URI, headers, Content-Length, the body bytes
// and whether the body ended cleanly). A recording RoundTripper handed to Send
// through SendTransport observes every attempt the helper makes (method, URL,
// headers, the bytes the attempt's body yields, the status it got back) and
// the back-off handed to SendRetry logs when it said Stop. The oracle judges
// the combined event log of one Send call.
package c34

import (
	"bytes"
	"crypto/sha256"
	"crypto/tls"
	"encoding/hex"
	"fmt"
	"io"
	"math/rand"
	"net"
	"net/http"
	"net/http/httptest"
	"os"
	"path/filepath"
	"sort"
	"strconv"
	"strings"
	"sync"
	"testing"
	"time"

	"github.com/cenkalti/backoff"

	"github.com/uber/kraken/utils/httputil"

	"verif/harness/internal/ev"
)

// ---------------------------------------------------------------------------
// case description (function of the seed only)

type action struct {
	Kind string `json:"kind"` // status | close_before_read | close_after_read | rst_before_read | rst_after_read
	Code int    `json:"code,omitempty"`
}

type caseSpec struct {
	ID        int               `json:"id"`
	Method    string            `json:"method"`
	Path      string            `json:"path"`
	Headers   map[string]string `json:"headers"`
	BodyKind  string            `json:"body_kind"`
	BodySize  int               `json:"body_size"`
	BodySeed  int64             `json:"body_seed"`
	Accepted  []int             `json:"accepted"` // nil = helper default (200)
	Retry     bool              `json:"retry"`
	Limit     int               `json:"limit"`   // max retries of the back-off
	Backoff   string            `json:"backoff"` // scripted | lib-constant
	Extra     []int             `json:"extra_retry_codes"`
	Script    []action          `json:"script"`
	Terminal  action            `json:"terminal"`
	KeepAlive bool              `json:"keep_alive"`
	// Fallback: the call is made with a TLS transport (scheme https) and
	// EnableHTTPFallback against the plain-HTTP server, so that every TLS
	// attempt fails in the handshake and the helper's https->http fallback
	// request is what reaches the server.
	Fallback bool `json:"https_to_http_fallback,omitempty"`
	// OptSeed decides the order in which the options are handed to Send (options
	// are applied in argument order); OptionOrder is the resulting order.
	OptSeed     int64    `json:"option_order_seed"`
	OptionOrder []string `json:"option_order,omitempty"`
}

var bodyKinds = []string{"none", "bytes.Reader", "bytes.Buffer", "strings.Reader", "os.File", "seekable-custom", "nonseekable-custom"}

var defaultRetryable = []int{429, 502, 503, 504}

func inSet(s []int, c int) bool {
	for _, x := range s {
		if x == c {
			return true
		}
	}
	return false
}

func genSize(r *rand.Rand, quick bool) int {
	switch p := r.Intn(100); {
	case p < 8:
		return 0
	case p < 35:
		return 1 + r.Intn(64)
	case p < 75:
		return 65 + r.Intn(8*1024)
	case p < 90:
		return 8*1024 + r.Intn(56*1024)
	case p < 97:
		return 64*1024 + r.Intn(96*1024)
	default:
		if quick && r.Intn(3) != 0 {
			return 160*1024 + r.Intn(96*1024)
		}
		return 256*1024 + r.Intn(768*1024+1) // up to 1 MiB
	}
}

func genToken(r *rand.Rand, n int) string {
	const al = "abcdefghijklmnopqrstuvwxyzABCDEFGHIJKLMNOPQRSTUVWXYZ0123456789"
	b := make([]byte, 1+r.Intn(n))
	for i := range b {
		b[i] = al[r.Intn(len(al))]
	}
	return string(b)
}

func genCase(r *rand.Rand, id int, quick bool) caseSpec {
	c := caseSpec{ID: id, Headers: map[string]string{}}
	c.Method = []string{"POST", "PUT", "PATCH", "POST", "PUT", "DELETE", "GET"}[r.Intn(7)]
	c.BodyKind = bodyKinds[r.Intn(len(bodyKinds))]
	if c.Method == "GET" && r.Intn(4) != 0 {
		c.BodyKind = "none"
	}
	if c.BodyKind != "none" {
		c.BodySize = genSize(r, quick)
		c.BodySeed = r.Int63()
	}
	c.Path = "/" + genToken(r, 8)
	for k := r.Intn(3); k > 0; k-- {
		c.Path += "/" + genToken(r, 6)
	}
	if r.Intn(2) == 0 {
		c.Path += "?" + genToken(r, 4) + "=" + genToken(r, 6)
		if r.Intn(2) == 0 {
			c.Path += "&" + genToken(r, 4) + "=" + genToken(r, 6)
		}
	}
	for k := r.Intn(4); k > 0; k-- {
		c.Headers["X-"+strings.Title(strings.ToLower(genToken(r, 6)))] = genToken(r, 12)
	}
	if r.Intn(3) == 0 {
		c.Headers["Content-Type"] = []string{"application/json", "application/octet-stream", "text/plain"}[r.Intn(3)]
	}
	// accepted codes
	switch r.Intn(6) {
	case 0:
		c.Accepted = []int{200, 201}
	case 1:
		c.Accepted = []int{202}
	case 2:
		c.Accepted = []int{200, 204}
	case 3:
		c.Accepted = []int{200, 503} // accepted code that is retryable by default: must not be retried
	default:
		c.Accepted = nil
	}
	accepted := c.Accepted
	if accepted == nil {
		accepted = []int{200}
	}
	c.Retry = r.Intn(8) != 0
	if c.Retry {
		c.Limit = r.Intn(6)
		c.Backoff = []string{"scripted", "scripted", "lib-constant"}[r.Intn(3)]
		if c.Backoff == "lib-constant" && c.Limit == 0 {
			c.Limit = 1 + r.Intn(5) // backoff.WithMaxRetries(b, 0) means "no limit"
		}
		if r.Intn(3) == 0 {
			// extra retry codes; a code that is also accepted is a contradictory
			// configuration outside the statement and is not generated.
			for _, x := range []int{500, 404, 409, 400} {
				if r.Intn(2) == 0 && !inSet(accepted, x) {
					c.Extra = append(c.Extra, x)
				}
			}
		}
	}
	retryable := func() int {
		for {
			x := defaultRetryable[r.Intn(len(defaultRetryable))]
			if !inSet(accepted, x) {
				return x
			}
		}
	}
	nonRetryable := func() int {
		for {
			x := []int{400, 401, 404, 409, 500, 501}[r.Intn(6)]
			if !inSet(accepted, x) && !inSet(c.Extra, x) {
				return x
			}
		}
	}
	fault := func() action {
		switch p := r.Intn(100); {
		case p < 40:
			return action{Kind: "status", Code: retryable()}
		case p < 55 && len(c.Extra) > 0:
			return action{Kind: "status", Code: c.Extra[r.Intn(len(c.Extra))]}
		case p < 65:
			return action{Kind: "close_after_read"}
		case p < 75:
			return action{Kind: "rst_after_read"}
		case p < 83:
			return action{Kind: "close_before_read"}
		case p < 90:
			return action{Kind: "rst_before_read"}
		case p < 95:
			return action{Kind: "status", Code: nonRetryable()}
		default:
			return action{Kind: "status", Code: accepted[r.Intn(len(accepted))]}
		}
	}
	n := r.Intn(c.Limit + 3)
	if r.Intn(10) == 0 {
		n = 0
	}
	for i := 0; i < n; i++ {
		c.Script = append(c.Script, fault())
	}
	if r.Intn(6) == 0 {
		c.Terminal = action{Kind: "status", Code: nonRetryable()}
	} else {
		c.Terminal = action{Kind: "status", Code: accepted[r.Intn(len(accepted))]}
	}
	c.KeepAlive = r.Intn(3) == 0
	return c
}

func bodyBytes(c caseSpec) []byte {
	if c.BodyKind == "none" {
		return nil
	}
	b := make([]byte, c.BodySize)
	rand.New(rand.NewSource(c.BodySeed)).Read(b)
	return b
}

func sum(b []byte) string {
	h := sha256.Sum256(b)
	return hex.EncodeToString(h[:8])
}

// ---------------------------------------------------------------------------
// custom body readers

type seekableBody struct {
	mu  sync.Mutex
	b   []byte
	pos int64
}

func (s *seekableBody) Read(p []byte) (int, error) {
	s.mu.Lock()
	defer s.mu.Unlock()
	if s.pos >= int64(len(s.b)) {
		return 0, io.EOF
	}
	n := copy(p, s.b[s.pos:])
	s.pos += int64(n)
	return n, nil
}

func (s *seekableBody) Seek(off int64, whence int) (int64, error) {
	s.mu.Lock()
	defer s.mu.Unlock()
	var np int64
	switch whence {
	case io.SeekStart:
		np = off
	case io.SeekCurrent:
		np = s.pos + off
	case io.SeekEnd:
		np = int64(len(s.b)) + off
	}
	if np < 0 {
		return 0, fmt.Errorf("negative position")
	}
	s.pos = np
	return np, nil
}

type plainBody struct {
	mu  sync.Mutex
	b   []byte
	pos int
}

func (s *plainBody) Read(p []byte) (int, error) {
	s.mu.Lock()
	defer s.mu.Unlock()
	if s.pos >= len(s.b) {
		return 0, io.EOF
	}
	// hand out odd-sized pieces, like a pipe would
	if len(p) > 4093 {
		p = p[:4093]
	}
	n := copy(p, s.b[s.pos:])
	s.pos += n
	return n, nil
}

// ---------------------------------------------------------------------------
// event log of one Send call

type srvAttempt struct {
	Index       int         `json:"index"`
	Action      action      `json:"action"`
	Method      string      `json:"method"`
	URI         string      `json:"uri"`
	Header      http.Header `json:"header"`
	ContentLen  int64       `json:"content_length"`
	BodyRead    bool        `json:"body_read"` // the handler read the body to its end
	BodyLen     int         `json:"body_len"`
	BodySum     string      `json:"body_sum"`
	BodyReadErr string      `json:"body_read_err,omitempty"`
	bodyEqual   bool
}

type cliAttempt struct {
	Index      int         `json:"index"`
	Method     string      `json:"method"`
	URL        string      `json:"url"`
	Header     http.Header `json:"header"`
	ContentLen int64       `json:"content_length"`
	HasBody    bool        `json:"has_body"`
	Status     int         `json:"status,omitempty"`
	Err        string      `json:"err,omitempty"`
	SrvIndex   int         `json:"server_attempt"` // X-Attempt of the response, -1 if none

	mu        sync.Mutex
	read      int64
	sawEOF    bool
	shared    bool // every chunk continued the stream that earlier attempts had already partly consumed
	overlap   bool // another attempt's body was read while this one was still being read
	done      bool
	readErr   string
	mismatch  bool
	afterStop bool
	resp      *http.Response
	closed    chan struct{} // closed when the transport released (closed) this attempt's body
	closeOnce sync.Once
}

type cliAttemptView struct {
	*cliAttempt
	BodyBytesRead int64  `json:"body_bytes_read"`
	BodySawEOF    bool   `json:"body_saw_eof"`
	BodyReadErr   string `json:"body_read_err,omitempty"`
	BodyMismatch  bool   `json:"body_mismatch"`
	BodyShared    bool   `json:"body_continues_consumed_stream"`
	BodyOverlap   bool   `json:"body_read_concurrently_with_other_attempt"`
	AfterStop     bool   `json:"after_backoff_stop"`
}

type caseLog struct {
	mu          sync.Mutex
	spec        caseSpec
	orig        []byte
	srv         []*srvAttempt
	cli         []*cliAttempt
	stopped     bool       // the back-off returned Stop
	bodyMu      sync.Mutex // serializes reads of request bodies (see countingBody.Read)
	consumed    int64      // bytes read from request bodies by all attempts so far
	stray       int
	lateRelease int // attempts whose body the transport had not released 3 s after RoundTrip failed
}

// countingBody observes what the body of one attempt yields.
type countingBody struct {
	rc   io.ReadCloser
	orig []byte
	a    *cliAttempt
	l    *caseLog
}

func (c *countingBody) Read(p []byte) (int, error) {
	// The helper under test may hand the same underlying reader to several
	// attempts, and the transport's write loop of an abandoned attempt can
	// still be reading it when the next attempt starts. Reads are serialized
	// here so that the monitor keeps observing (and reports) instead of
	// tripping the race detector inside bytes.Buffer.
	l := c.l
	l.bodyMu.Lock()
	defer l.bodyMu.Unlock()
	l.mu.Lock()
	others := append([]*cliAttempt(nil), l.cli...)
	l.mu.Unlock()
	overlap := false
	for _, o := range others {
		if o != c.a {
			o.mu.Lock()
			if o.read > 0 && !o.done && o.HasBody {
				overlap = true
			}
			o.mu.Unlock()
		}
	}
	n, err := c.rc.Read(p)
	c.a.mu.Lock()
	if overlap {
		c.a.overlap = true
	}
	if n > 0 {
		end := c.a.read + int64(n)
		if end > int64(len(c.orig)) || !bytes.Equal(p[:n], c.orig[c.a.read:end]) {
			c.a.mismatch = true
		}
		gend := l.consumed + int64(n)
		if gend > int64(len(c.orig)) || !bytes.Equal(p[:n], c.orig[l.consumed:gend]) {
			c.a.shared = false
		}
		l.consumed = gend
		c.a.read = end
	}
	if err == io.EOF {
		c.a.sawEOF = true
		c.a.done = true
	} else if err != nil {
		c.a.readErr = err.Error()
		c.a.done = true
	}
	c.a.mu.Unlock()
	return n, err
}

func (c *countingBody) Close() error {
	c.a.mu.Lock()
	c.a.done = true
	c.a.mu.Unlock()
	err := c.rc.Close()
	c.a.closeOnce.Do(func() { close(c.a.closed) })
	return err
}

type recTransport struct {
	base http.RoundTripper
	log  *caseLog
}

func (rt *recTransport) RoundTrip(req *http.Request) (*http.Response, error) {
	l := rt.log
	a := &cliAttempt{
		Method: req.Method, URL: req.URL.String(), Header: req.Header.Clone(),
		ContentLen: req.ContentLength, HasBody: req.Body != nil && req.Body != http.NoBody, SrvIndex: -1, shared: true,
		closed: make(chan struct{}),
	}
	l.mu.Lock()
	a.Index = len(l.cli)
	a.afterStop = l.stopped
	l.cli = append(l.cli, a)
	l.mu.Unlock()
	req2 := req.WithContext(req.Context()) // shallow copy; RoundTrippers must not modify req
	if a.HasBody {
		req2.Body = &countingBody{rc: req.Body, orig: l.orig, a: a, l: l}
	}
	resp, err := rt.base.RoundTrip(req2)
	if a.HasBody {
		// net/http may still be reading (and only later close) the body of an
		// attempt in its write loop after RoundTrip has returned - after an error,
		// but also after a response that arrived while the write loop was about
		// to fetch the final EOF (bytes.Buffer.Read then resets the buffer). The helper
		// under test goes on to touch the caller's reader right away
		// (http.NewRequest calls Len() on it in the fallback path), which the
		// race detector reports inside bytes.Buffer and which makes go test fail
		// whatever the verdict. Hand control back only once the transport has
		// released the body: a legal schedule, and the monitor keeps observing.
		select {
		case <-a.closed:
		case <-time.After(3 * time.Second):
			l.mu.Lock()
			l.lateRelease++
			l.mu.Unlock()
		}
	}
	a.mu.Lock()
	if err != nil {
		a.Err = err.Error()
	} else {
		a.resp = resp
		a.Status = resp.StatusCode
		if v := resp.Header.Get("X-Attempt"); v != "" {
			a.SrvIndex, _ = strconv.Atoi(v)
		}
	}
	a.mu.Unlock()
	return resp, err
}

// scriptedBackoff allows limit retries, then says Stop, and logs the Stop.
type loggedBackoff struct {
	inner backoff.BackOff
	log   *caseLog
}

func (b *loggedBackoff) NextBackOff() time.Duration {
	d := b.inner.NextBackOff()
	if d == backoff.Stop {
		b.log.mu.Lock()
		b.log.stopped = true
		b.log.mu.Unlock()
	}
	return d
}
func (b *loggedBackoff) Reset() { b.inner.Reset() }

type countBackoff struct{ limit, n int }

func (b *countBackoff) NextBackOff() time.Duration {
	if b.n >= b.limit {
		return backoff.Stop
	}
	b.n++
	return time.Duration(b.n%2) * 200 * time.Microsecond
}
func (b *countBackoff) Reset() { b.n = 0 }

// ---------------------------------------------------------------------------
// worker: one server + one transport pair, cases run sequentially

type worker struct {
	t        *testing.T
	srv      *httptest.Server
	tmp      string
	mu       sync.Mutex
	cur      *caseLog
	prefix   string
	trKA     *http.Transport
	trNoKA   *http.Transport
	inflight sync.WaitGroup
}

func newWorker(t *testing.T, tmp string) *worker {
	w := &worker{t: t, tmp: tmp}
	w.srv = httptest.NewServer(http.HandlerFunc(w.handle))
	// the TLS client config only matters for the https attempts of fallback cases
	w.trKA = &http.Transport{MaxIdleConnsPerHost: 4, TLSClientConfig: &tls.Config{InsecureSkipVerify: true}}
	w.trNoKA = &http.Transport{DisableKeepAlives: true, TLSClientConfig: &tls.Config{InsecureSkipVerify: true}}
	return w
}

func (w *worker) close() {
	w.trKA.CloseIdleConnections()
	w.srv.Close()
}

func (w *worker) handle(rw http.ResponseWriter, r *http.Request) {
	w.mu.Lock()
	l, prefix := w.cur, w.prefix
	if l != nil {
		w.inflight.Add(1)
	}
	w.mu.Unlock()
	if l != nil {
		defer w.inflight.Done()
	}
	if l == nil || !strings.HasPrefix(r.URL.Path, prefix+"/") {
		if l != nil {
			l.mu.Lock()
			l.stray++
			l.mu.Unlock()
		}
		http.Error(rw, "stray", http.StatusGone)
		return
	}
	l.mu.Lock()
	k := len(l.srv)
	act := l.spec.Terminal
	if k < len(l.spec.Script) {
		act = l.spec.Script[k]
	}
	a := &srvAttempt{Index: k, Action: act, Method: r.Method, URI: r.RequestURI, Header: r.Header.Clone(), ContentLen: r.ContentLength}
	l.srv = append(l.srv, a)
	orig := l.orig
	l.mu.Unlock()

	kill := func(rst bool) {
		hj, ok := rw.(http.Hijacker)
		if !ok {
			panic("no hijacker")
		}
		conn, _, err := hj.Hijack()
		if err != nil {
			return
		}
		if rst {
			if tc, ok := conn.(*net.TCPConn); ok {
				_ = tc.SetLinger(0)
			}
		}
		_ = conn.Close()
	}
	if act.Kind == "close_before_read" || act.Kind == "rst_before_read" {
		kill(act.Kind == "rst_before_read")
		return
	}
	body, err := io.ReadAll(r.Body)
	l.mu.Lock()
	a.BodyLen = len(body)
	a.BodySum = sum(body)
	a.bodyEqual = bytes.Equal(body, orig)
	if err != nil {
		a.BodyReadErr = err.Error()
	} else {
		a.BodyRead = true
	}
	l.mu.Unlock()
	switch act.Kind {
	case "close_after_read":
		kill(false)
	case "rst_after_read":
		kill(true)
	default:
		rw.Header().Set("X-Attempt", strconv.Itoa(k))
		rw.WriteHeader(act.Code)
		if act.Code != 204 && act.Code != 304 {
			_, _ = fmt.Fprintf(rw, "attempt=%d", k)
		}
	}
}

type result struct {
	spec       caseSpec
	log        *caseLog
	ok         bool
	respStatus int
	respSrvIdx int
	errText    string
	errKind    string
	wall       time.Duration
}

func (w *worker) makeBody(c caseSpec, orig []byte) (io.Reader, func()) {
	switch c.BodyKind {
	case "none":
		return nil, func() {}
	case "bytes.Reader":
		return bytes.NewReader(orig), func() {}
	case "bytes.Buffer":
		return bytes.NewBuffer(append([]byte(nil), orig...)), func() {}
	case "strings.Reader":
		return strings.NewReader(string(orig)), func() {}
	case "os.File":
		p := filepath.Join(w.tmp, fmt.Sprintf("body-%d", c.ID))
		if err := os.WriteFile(p, orig, 0o644); err != nil {
			w.t.Fatalf("write body file: %v", err)
		}
		f, err := os.Open(p)
		if err != nil {
			w.t.Fatalf("open body file: %v", err)
		}
		return f, func() { _ = f.Close(); _ = os.Remove(p) }
	case "seekable-custom":
		return &seekableBody{b: orig}, func() {}
	case "nonseekable-custom":
		return &plainBody{b: orig}, func() {}
	}
	panic("unknown body kind " + c.BodyKind)
}

func (w *worker) runCase(c caseSpec) *result {
	orig := bodyBytes(c)
	l := &caseLog{spec: c, orig: orig}
	prefix := fmt.Sprintf("/c%d", c.ID)
	w.mu.Lock()
	w.cur, w.prefix = l, prefix
	w.mu.Unlock()

	body, cleanup := w.makeBody(c, orig)
	defer cleanup()
	base := w.trNoKA
	if c.KeepAlive {
		base = w.trKA
	}
	type namedOpt struct {
		name string
		opt  httputil.SendOption
	}
	var named []namedOpt
	if c.Fallback {
		// sets the scheme to https; the server only speaks plain HTTP
		named = append(named, namedOpt{"tls-transport", httputil.SendTLSTransport(&recTransport{base: base, log: l})},
			namedOpt{"enable-http-fallback", httputil.EnableHTTPFallback()})
	} else {
		named = append(named, namedOpt{"transport", httputil.SendTransport(&recTransport{base: base, log: l})})
	}
	if len(c.Headers) > 0 || c.ID%2 == 0 {
		named = append(named, namedOpt{"headers", httputil.SendHeaders(c.Headers)})
	}
	if body != nil {
		named = append(named, namedOpt{"body", httputil.SendBody(body)})
	}
	if c.Accepted != nil {
		named = append(named, namedOpt{"accepted-codes", httputil.SendAcceptedCodes(c.Accepted...)})
	}
	if c.ID%3 == 0 {
		named = append(named, namedOpt{"timeout", httputil.SendTimeout(60 * time.Second)})
	}
	if c.Retry {
		var bo backoff.BackOff
		if c.Backoff == "lib-constant" {
			bo = backoff.WithMaxRetries(backoff.NewConstantBackOff(100*time.Microsecond), uint64(c.Limit))
		} else {
			bo = &countBackoff{limit: c.Limit}
		}
		ro := []httputil.RetryOption{httputil.RetryBackoff(&loggedBackoff{inner: bo, log: l})}
		if len(c.Extra) > 0 {
			ro = append(ro, httputil.RetryCodes(c.Extra...))
		}
		named = append(named, namedOpt{"retry", httputil.SendRetry(ro...)})
	}
	// options are applied in argument order: every permutation is a legal call
	rand.New(rand.NewSource(c.OptSeed)).Shuffle(len(named), func(i, j int) { named[i], named[j] = named[j], named[i] })
	var opts []httputil.SendOption
	c.OptionOrder = nil
	for _, no := range named {
		opts = append(opts, no.opt)
		c.OptionOrder = append(c.OptionOrder, no.name)
	}
	res := &result{spec: c, log: l, respSrvIdx: -1}
	t0 := time.Now()
	resp, err := httputil.Send(c.Method, w.srv.URL+prefix+c.Path, opts...)
	res.wall = time.Since(t0)
	if err == nil {
		res.ok = true
		res.respStatus = resp.StatusCode
		if v := resp.Header.Get("X-Attempt"); v != "" {
			res.respSrvIdx, _ = strconv.Atoi(v)
		}
		_, _ = io.Copy(io.Discard, resp.Body)
		_ = resp.Body.Close()
	} else {
		res.errText = err.Error()
		if len(res.errText) > 300 {
			res.errText = res.errText[:300]
		}
		switch {
		case httputil.IsNetworkError(err):
			res.errKind = "network"
		default:
			if se, ok := err.(httputil.StatusError); ok {
				res.errKind = "status"
				res.respStatus = se.Status
			} else {
				res.errKind = "other"
			}
		}
	}
	// Responses the helper dropped on its way to a retry are never closed by it;
	// release them once the call is over so that connections, goroutines and the
	// request bodies they pin do not pile up across thousands of cases.
	l.mu.Lock()
	for _, a := range l.cli {
		a.mu.Lock()
		if a.resp != nil && a.resp != resp && a.resp.Body != nil {
			_ = a.resp.Body.Close()
		}
		a.resp = nil
		a.mu.Unlock()
	}
	l.mu.Unlock()
	if c.KeepAlive && c.ID%5 == 0 {
		w.trKA.CloseIdleConnections()
	}
	// detach the case from the server and wait for handlers that already
	// attached to it; the transport's write loop may still be winding down, the
	// attempt records are therefore read under their mutexes.
	w.mu.Lock()
	w.cur = nil
	w.mu.Unlock()
	w.inflight.Wait()
	return res
}

// ---------------------------------------------------------------------------
// oracle

type violation struct {
	Sig  string `json:"signature"`
	What string `json:"what"`
}

func headerSubset(want map[string]string, got http.Header) string {
	keys := make([]string, 0, len(want))
	for k := range want {
		keys = append(keys, k)
	}
	sort.Strings(keys)
	for _, k := range keys {
		vs := got.Values(k)
		if len(vs) != 1 || vs[0] != want[k] {
			return fmt.Sprintf("header %s: want %q got %q", k, want[k], vs)
		}
	}
	return ""
}

func judge(res *result, baseURL string) (viol []violation, helperAttempts int, view []cliAttemptView) {
	c := res.spec
	l := res.log
	l.mu.Lock()
	defer l.mu.Unlock()
	accepted := c.Accepted
	if accepted == nil {
		accepted = []int{200}
	}
	wantURL := baseURL + fmt.Sprintf("/c%d", c.ID) + c.Path
	wantURI := fmt.Sprintf("/c%d", c.ID) + c.Path
	n := int64(len(l.orig))
	add := func(sig, f string, args ...interface{}) {
		viol = append(viol, violation{sig, fmt.Sprintf(f, args...)})
	}
	helperAttempts = len(l.cli)
	for _, a := range l.cli {
		if strings.Contains(a.Err, "Client.Timeout") || strings.Contains(a.Err, "deadline exceeded") {
			// the 60 s client timeout fired (overloaded machine): the attempt was cut by the harness environment
			return nil, -1, nil
		}
	}
	// In fallback cases every logical attempt of the helper is a TLS attempt
	// (fails in the handshake against the plain server, carries nothing) followed
	// by the http fallback request; findings of those cases get their own
	// signature prefix.
	pfx := ""
	wantTLSURL := ""
	if c.Fallback {
		pfx = "fallback-"
		wantTLSURL = "https://" + strings.TrimPrefix(wantURL, "http://")
	}
	tlsAttempts, plainAttempts := 0, 0
	for _, a := range l.cli {
		a.mu.Lock()
		isTLS := c.Fallback && strings.HasPrefix(a.URL, "https://")
		logical := a.Index
		if c.Fallback {
			logical = plainAttempts
			if isTLS {
				logical = tlsAttempts
			}
		}
		if isTLS {
			tlsAttempts++
		} else {
			plainAttempts++
		}
		v := cliAttemptView{cliAttempt: a, BodyBytesRead: a.read, BodySawEOF: a.sawEOF, BodyReadErr: a.readErr, BodyMismatch: a.mismatch, BodyShared: a.shared && logical > 0, BodyOverlap: a.overlap, AfterStop: a.afterStop}
		view = append(view, v)
		which := pfx + "first"
		if logical > 0 {
			which = pfx + "retry"
		}
		if isTLS {
			which += "-tls"
		}
		if a.Method != c.Method {
			add(which+"-attempt-method-differs", "attempt %d method %s want %s", a.Index, a.Method, c.Method)
		}
		if want := map[bool]string{true: wantTLSURL, false: wantURL}[isTLS]; a.URL != want {
			add(which+"-attempt-url-differs", "attempt %d url %s want %s", a.Index, a.URL, want)
		}
		if d := headerSubset(c.Headers, a.Header); d != "" {
			add(which+"-attempt-headers-differ", "attempt %d %s", a.Index, d)
		}
		// the body this attempt offers: judged only when the body itself ended
		// (clean EOF or a read error of the body); a transfer cut short by the
		// server says nothing about the helper. A TLS attempt that dies in the
		// handshake never gets to its body.
		switch {
		case isTLS && a.Status == 0 && a.read == 0:
		case n > 0 && !a.HasBody:
			add(which+"-attempt-without-body", "attempt %d carries no body, original has %d bytes", a.Index, n)
		case a.readErr != "":
			add(which+"-attempt-body-unreadable", "attempt %d: reading the request body failed after %d of %d bytes: %s", a.Index, a.read, n, a.readErr)
		case logical > 0 && a.read > 0 && a.mismatch && a.shared:
			// the body is the reader an earlier attempt already consumed in part: it resumes in the middle
			add(which+"-attempt-body-incomplete", "attempt %d body resumes in the middle of the original (earlier attempts consumed the beginning); %d bytes read, eof=%v", a.Index, a.read, a.sawEOF)
		case a.HasBody && a.sawEOF && a.read < n:
			add(which+"-attempt-body-incomplete", "attempt %d body ended after %d of %d bytes", a.Index, a.read, n)
		case a.mismatch:
			add(which+"-attempt-body-differs", "attempt %d body bytes differ from the original", a.Index)
		}
		if a.afterStop {
			add(pfx+"attempt-after-backoff-stop", "attempt %d was made after the back-off returned Stop", a.Index)
		}
		if a.Status != 0 && inSet(accepted, a.Status) && a.Index != len(l.cli)-1 {
			add(pfx+"accepted-status-retried", "attempt %d got accepted status %d and was followed by another attempt", a.Index, a.Status)
		}
		a.mu.Unlock()
	}
	limit := 0
	if c.Retry {
		limit = c.Limit
	}
	if tlsAttempts > limit+1 || plainAttempts > limit+1 {
		add(pfx+"more-attempts-than-backoff-allows", "%d attempts (%d of them TLS attempts) with a back-off of %d retries", len(l.cli), tlsAttempts, limit)
	}
	if c.Fallback {
		helperAttempts = tlsAttempts // logical attempts of the helper
	}
	for _, s := range l.srv {
		which := pfx + "first"
		if s.Index > 0 {
			which = pfx + "retry"
		}
		if s.Method != c.Method {
			add(which+"-attempt-method-differs-on-wire", "server attempt %d method %s", s.Index, s.Method)
		}
		if s.URI != wantURI {
			add(which+"-attempt-url-differs-on-wire", "server attempt %d uri %s want %s", s.Index, s.URI, wantURI)
		}
		if d := headerSubset(c.Headers, s.Header); d != "" {
			add(which+"-attempt-headers-differ-on-wire", "server attempt %d %s", s.Index, d)
		}
		if s.Action.Kind == "close_before_read" || s.Action.Kind == "rst_before_read" {
			continue
		}
		if s.BodyRead && !s.bodyEqual {
			add(which+"-attempt-incomplete-body-on-wire", "server attempt %d received a cleanly ended body of %d bytes (sum %s), original %d bytes (sum %s)", s.Index, s.BodyLen, s.BodySum, n, sum(l.orig))
		}
		if !s.BodyRead {
			add(which+"-attempt-incomplete-body-on-wire", "server attempt %d: body ended with %q after %d of %d bytes", s.Index, s.BodyReadErr, s.BodyLen, n)
		}
	}
	if res.ok {
		if !inSet(accepted, res.respStatus) {
			add(pfx+"success-with-unaccepted-status", "Send returned status %d, accepted %v", res.respStatus, accepted)
		}
		if res.respSrvIdx < 0 || res.respSrvIdx >= len(l.srv) {
			add(pfx+"success-without-server-attempt", "Send returned a response that no recorded attempt produced")
		} else if s := l.srv[res.respSrvIdx]; !s.BodyRead || !s.bodyEqual {
			add(pfx+"success-reported-for-incomplete-body", "Send returned success (status %d) for server attempt %d which received %d of %d body bytes (sum %s vs %s)", res.respStatus, s.Index, s.BodyLen, n, s.BodySum, sum(l.orig))
		}
	}
	return viol, helperAttempts, view
}

func retryProvoking(c caseSpec) bool {
	if !c.Retry || c.Limit == 0 || len(c.Script) == 0 {
		return false
	}
	a := c.Script[0]
	if a.Kind != "status" {
		return true
	}
	accepted := c.Accepted
	if accepted == nil {
		accepted = []int{200}
	}
	if inSet(accepted, a.Code) {
		return false
	}
	return inSet(defaultRetryable, a.Code) || inSet(c.Extra, a.Code)
}

type outcome struct {
	spec        caseSpec
	viol        []violation
	witness     map[string]interface{}
	attempts    int
	srvAttempts int
	ok          bool
	errKind     string
	errText     string
	stray       int
	lateRelease int
	wall        time.Duration
	overlap     bool
}

func TestC34(t *testing.T) {
	run := ev.Start(t, "C34", "fault_enumeration",
		"PRNG-generated scripted fault sequences for one httputil.Send call: method x URL(+query) x 0-4 headers x body kind "+
			"(none, bytes.Reader, bytes.Buffer, strings.Reader, *os.File, seekable custom, non-seekable custom) x size 0 B-1 MiB x accepted set "+
			"(default, with 201/202/204, with a default-retryable code) x back-off limit 0-5 (or no SendRetry) x extra retry codes x a server script of "+
			"0..limit+2 faults (FIN/RST before or after the body was read, 429/502/503/504, extra code, non-retryable code, accepted code) + terminal answer x keep-alive x a random permutation of the option list handed to Send (options apply in argument order). "+
			"A case is non-trivial when the helper made >= 2 attempts or its first answer was retry-provoking with a back-off limit >= 1; distinct = distinct case description.")
	defer run.Finish()
	run.Assume("net/http client transport and server are trusted to deliver/record request bytes faithfully; the recording RoundTripper hands a shallow request copy with a counting body to a stock http.Transport")
	run.Assume("configurations where a code is both accepted and an extra retry code are contradictory and not generated")

	r := run.Rand("cases")
	rf := run.Rand("fallback")
	ro := run.Rand("option-order")
	n := run.N(900, 10000)
	cases := make([]caseSpec, n)
	for i := range cases {
		cases[i] = genCase(r, i, run.Quick())
		// drawn from its own stream so that the other dimensions of the case list stay what they were
		cases[i].Fallback = rf.Intn(4) == 0
		cases[i].OptSeed = ro.Int63()
	}
	tmp := ev.TempDir(t, "c34-")
	const workers = 12
	outcomes := make([]*outcome, n)
	var wg sync.WaitGroup
	replay := run.ReplayCase()
	for wi := 0; wi < workers; wi++ {
		wg.Add(1)
		go func(wi int) {
			defer wg.Done()
			w := newWorker(t, tmp)
			defer w.close()
			kept := map[string]int{}
			for i := wi; i < n; i += workers {
				if replay != "" && replay != strconv.Itoa(i) {
					continue
				}
				res := w.runCase(cases[i])
				viol, attempts, view := judge(res, w.srv.URL)
				o := &outcome{spec: res.spec, viol: viol, attempts: attempts, srvAttempts: len(res.log.srv),
					ok: res.ok, errKind: res.errKind, errText: res.errText, stray: res.log.stray, lateRelease: res.log.lateRelease, wall: res.wall}
				for _, v := range view {
					o.overlap = o.overlap || v.BodyOverlap
				}
				keep := false
				for _, v := range viol {
					kept[v.Sig]++
					if kept[v.Sig] <= 8 {
						keep = true
					}
				}
				if keep {
					o.witness = map[string]interface{}{
						"case": res.spec, "all_findings": viol,
						"helper_attempts": view, "server_attempts": res.log.srv,
						"send_ok": res.ok, "send_status": res.respStatus, "send_err": res.errText,
						"original_body_len": len(res.log.orig), "original_body_sum": sum(res.log.orig),
					}
				}
				outcomes[i] = o
			}
		}(wi)
	}
	wg.Wait()

	dropped := 0
	defer func() {
		if dropped*100 > n {
			run.Inconclusive(fmt.Sprintf("%d of %d cases hit the 60 s client timeout and were not judged", dropped, n))
		}
	}()
	for i, o := range outcomes {
		if o == nil {
			continue
		}
		c := o.spec
		if o.attempts < 0 {
			dropped++
			run.Count("cases_dropped_client_timeout", 1)
			continue
		}
		nontrivial := o.attempts >= 2 || retryProvoking(c)
		run.Case(ev.JSON(c), nontrivial)
		run.Count("helper_attempts", int64(o.attempts))
		run.Count("server_attempts", int64(o.srvAttempts))
		run.Count("body_kind_"+c.BodyKind, 1)
		ri, ai := -1, -1
		for k, name := range c.OptionOrder {
			if name == "retry" {
				ri = k
			}
			if name == "accepted-codes" {
				ai = k
			}
		}
		if ri >= 0 && ai >= 0 {
			if ri < ai {
				run.Count("cases_retry_option_before_accepted_codes", 1)
			} else {
				run.Count("cases_accepted_codes_before_retry_option", 1)
			}
		}
		run.Distinct("option_orders", strings.Join(c.OptionOrder, ">"))
		if c.Fallback {
			run.Count("cases_https_to_http_fallback", 1)
			if o.attempts >= 2 && c.BodyKind != "none" && c.BodySize > 0 {
				run.Count("fallback_cases_with_retry_and_body", 1)
			}
		}
		if o.attempts >= 2 {
			run.Count("cases_with_retry", 1)
			if c.BodyKind != "none" && c.BodySize > 0 {
				run.Count("cases_with_retry_and_body", 1)
			}
		}
		if o.ok {
			run.Count("send_success", 1)
		} else {
			run.Count("send_error_"+o.errKind, 1)
		}
		if o.stray > 0 {
			run.Count("stray_requests", int64(o.stray))
		}
		if o.lateRelease > 0 {
			run.Count("attempt_bodies_not_released_within_3s", int64(o.lateRelease))
		}
		if o.overlap {
			run.Count("cases_where_retry_read_body_while_previous_attempt_still_read_it", 1)
		}
		if o.wall > 5*time.Second {
			run.Count("cases_slower_than_5s", 1)
			t.Logf("slow case %d: %s attempts=%d srv=%d %s", i, o.wall, o.attempts, o.srvAttempts, ev.JSON(c))
		}
		run.Distinct("body_kind_x_attempts", fmt.Sprintf("%s/%d/fallback=%v", c.BodyKind, o.attempts, c.Fallback))
		if run.WantSample() && i%151 == 0 {
			run.Sample(map[string]interface{}{"case": c, "helper_attempts": o.attempts, "server_attempts": o.srvAttempts, "ok": o.ok, "err": o.errText})
		}
		seen := map[string]bool{}
		for _, v := range o.viol {
			if seen[v.Sig] {
				continue
			}
			seen[v.Sig] = true
			w := map[string]interface{}{"what": v.What}
			for k, x := range o.witness {
				w[k] = x
			}
			run.Violation(v.Sig, strconv.Itoa(i), w)
		}
	}
}
