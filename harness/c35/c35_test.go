// C35: a successful cluster blob download delivers the blob exactly once.
//
// History monitor: the real blobclient.NewClusterClient over the real
// NewClientResolver / HTTPProvider / HTTPClient talks to 1-3 real HTTP origins
// (httptest servers). Every origin answers the blob request from a per-case
// script: connection dropped without an answer (FIN/RST), 5xx, 202 x k, 404,
// other 4xx, the full body (Content-Length or chunked), or the first j body
// bytes followed by a disconnect (Content-Length or chunked, FIN or RST, j from
// 0 to N). Every request is logged (origin, action, body bytes written,
// whether the whole blob was delivered). The oracle compares the destination
// with the blob whenever ClusterClient.DownloadBlob returns nil.
package c35

import (
	"bytes"
	"context"
	"fmt"
	"io"
	"math/rand"
	"net"
	"net/http"
	"net/http/httptest"
	"os"
	"path/filepath"
	"strconv"
	"strings"
	"sync"
	"testing"
	"time"

	"github.com/uber/kraken/core"
	"github.com/uber/kraken/lib/hostlist"
	"github.com/uber/kraken/origin/blobclient"

	"verif/harness/internal/ev"
)

type action struct {
	Kind string `json:"kind"` // full | partial | status | drop
	Code int    `json:"code,omitempty"`
	// full / partial
	Chunked bool `json:"chunked,omitempty"`
	Cut     int  `json:"cut,omitempty"` // body bytes sent before the disconnect
	Rst     bool `json:"rst,omitempty"`
}

type originScript struct {
	Script []action `json:"script"`
	Then   action   `json:"then"` // answer once the script is used up
}

type caseSpec struct {
	ID        int            `json:"id"`
	BlobSize  int            `json:"blob_size"`
	BlobSeed  int64          `json:"blob_seed"`
	Namespace string         `json:"namespace"`
	Origins   []originScript `json:"origins"`               // in resolved (Origin-Locations) order
	Dst       string         `json:"dst"`                   // buffer | file | writer
	LocFail   int            `json:"locations_fail_origin"` // origin index whose /locations answers 500, -1 none
}

func genSize(r *rand.Rand, quick bool) int {
	switch p := r.Intn(100); {
	case p < 5:
		return 0
	case p < 30:
		return 1 + r.Intn(100)
	case p < 70:
		return 100 + r.Intn(16*1024)
	case p < 95:
		return 16*1024 + r.Intn(200*1024)
	default:
		if quick {
			return 200*1024 + r.Intn(100*1024)
		}
		return 256*1024 + r.Intn(768*1024+1)
	}
}

func genCut(r *rand.Rand, n int) int {
	if n == 0 {
		return 0
	}
	switch r.Intn(6) {
	case 0:
		return 0
	case 1:
		return 1
	case 2:
		return n - 1
	case 3:
		return n // every body byte sent, then the connection dies
	default:
		return r.Intn(n + 1)
	}
}

func genCase(r *rand.Rand, id int, quick bool) caseSpec {
	c := caseSpec{ID: id, BlobSize: genSize(r, quick), BlobSeed: r.Int63(), LocFail: -1}
	c.Namespace = []string{"ns", "library/ubuntu", "a b/c:tag", "repo-x/y_z"}[r.Intn(4)]
	c.Dst = []string{"buffer", "file", "writer"}[r.Intn(3)]
	no := 1 + r.Intn(3)
	budget202 := 0
	if r.Intn(7) == 0 {
		budget202 = 1 + r.Intn(2)
	}
	fail := func() action {
		switch p := r.Intn(100); {
		case p < 40:
			return action{Kind: "partial", Chunked: r.Intn(2) == 0, Cut: genCut(r, c.BlobSize), Rst: r.Intn(3) == 0}
		case p < 60:
			return action{Kind: "status", Code: []int{500, 502, 503, 504}[r.Intn(4)]}
		case p < 75:
			return action{Kind: "drop", Rst: r.Intn(2) == 0}
		case p < 82:
			return action{Kind: "status", Code: 404}
		case p < 87:
			return action{Kind: "status", Code: []int{400, 403, 409}[r.Intn(3)]}
		default:
			if budget202 > 0 {
				budget202--
				return action{Kind: "status", Code: 202}
			}
			return action{Kind: "status", Code: 503}
		}
	}
	full := func() action { return action{Kind: "full", Chunked: r.Intn(2) == 0} }
	for i := 0; i < no; i++ {
		var o originScript
		// each origin: 0-2 scripted answers, then a steady answer
		for k := r.Intn(3); k > 0; k-- {
			if r.Intn(4) == 0 {
				o.Script = append(o.Script, full())
			} else {
				o.Script = append(o.Script, fail())
			}
		}
		if r.Intn(5) < 3 {
			o.Then = full()
		} else {
			o.Then = fail()
			if o.Then.Code == 202 {
				o.Then = action{Kind: "status", Code: 502}
			}
		}
		c.Origins = append(c.Origins, o)
	}
	if no > 1 && r.Intn(15) == 0 {
		c.LocFail = r.Intn(no)
	}
	return c
}

func blobBytes(c caseSpec) []byte {
	b := make([]byte, c.BlobSize)
	rand.New(rand.NewSource(c.BlobSeed)).Read(b)
	return b
}

// ---------------------------------------------------------------------------

type reqEvent struct {
	Origin    int    `json:"origin"`
	Seq       int    `json:"seq"` // per-origin request index
	Action    action `json:"action"`
	Written   int    `json:"body_bytes_written"`
	Delivered bool   `json:"whole_blob_delivered"`
	Err       string `json:"err,omitempty"`
}

type caseState struct {
	mu      sync.Mutex
	spec    caseSpec
	blob    []byte
	digest  core.Digest
	addrs   []string // origin index -> host:port
	perOrig []int
	events  []*reqEvent
	locReqs int
}

// rig: three origin servers shared by the cases of one worker.
type rig struct {
	srvs  []*httptest.Server
	addrs []string
	mu    sync.Mutex
	cases map[string]*caseState // digest hex -> case
	wg    sync.WaitGroup
}

func newRig() *rig {
	g := &rig{cases: map[string]*caseState{}}
	for i := 0; i < 3; i++ {
		idx := i
		s := httptest.NewServer(http.HandlerFunc(func(w http.ResponseWriter, r *http.Request) { g.handle(idx, w, r) }))
		g.srvs = append(g.srvs, s)
		g.addrs = append(g.addrs, strings.TrimPrefix(s.URL, "http://"))
	}
	return g
}

func (g *rig) close() {
	for _, s := range g.srvs {
		s.Close()
	}
}

func kill(w http.ResponseWriter, rst bool) {
	hj, ok := w.(http.Hijacker)
	if !ok {
		panic("no hijacker")
	}
	conn, _, err := hj.Hijack()
	if err != nil {
		return
	}
	if rst {
		if tc, ok := conn.(*net.TCPConn); ok {
			_ = tc.SetLinger(0)
		}
	}
	_ = conn.Close()
}

func (g *rig) handle(srvIdx int, w http.ResponseWriter, r *http.Request) {
	// /blobs/<digest>/locations  |  /namespace/<ns>/blobs/<digest>
	p := r.URL.Path
	var hex string
	isLoc := false
	switch {
	case strings.HasPrefix(p, "/blobs/") && strings.HasSuffix(p, "/locations"):
		hex = strings.TrimSuffix(strings.TrimPrefix(p, "/blobs/"), "/locations")
		isLoc = true
	case strings.HasPrefix(p, "/namespace/"):
		i := strings.LastIndex(p, "/blobs/")
		if i < 0 {
			http.Error(w, "bad path", 400)
			return
		}
		hex = p[i+len("/blobs/"):]
	default:
		http.Error(w, "bad path", 400)
		return
	}
	hex = strings.TrimPrefix(hex, "sha256:")
	g.mu.Lock()
	st := g.cases[hex]
	if st != nil {
		g.wg.Add(1)
	}
	g.mu.Unlock()
	if st == nil {
		http.Error(w, "unknown case", http.StatusGone)
		return
	}
	defer g.wg.Done()

	// which origin of the case is this server?
	origin := -1
	for i, a := range st.addrs {
		if a == g.addrs[srvIdx] {
			origin = i
		}
	}
	if isLoc {
		st.mu.Lock()
		st.locReqs++
		st.mu.Unlock()
		if origin == st.spec.LocFail {
			http.Error(w, "locations unavailable", 500)
			return
		}
		w.Header().Set("Origin-Locations", strings.Join(st.addrs, ","))
		w.WriteHeader(200)
		return
	}
	if origin < 0 {
		http.Error(w, "not an origin of this case", http.StatusGone)
		return
	}
	st.mu.Lock()
	seq := st.perOrig[origin]
	st.perOrig[origin]++
	o := st.spec.Origins[origin]
	act := o.Then
	if seq < len(o.Script) {
		act = o.Script[seq]
	}
	e := &reqEvent{Origin: origin, Seq: seq, Action: act}
	st.events = append(st.events, e)
	blob := st.blob
	st.mu.Unlock()
	set := func(f func()) { st.mu.Lock(); f(); st.mu.Unlock() }

	switch act.Kind {
	case "drop":
		kill(w, act.Rst)
	case "status":
		w.WriteHeader(act.Code)
		_, _ = io.WriteString(w, "scripted status")
	case "full", "partial":
		n := len(blob)
		if act.Kind == "partial" {
			n = act.Cut
		}
		if !act.Chunked {
			w.Header().Set("Content-Length", strconv.Itoa(len(blob)))
		}
		w.Header().Set("Content-Type", "application/octet-stream")
		w.WriteHeader(200)
		fl := w.(http.Flusher)
		written := 0
		var werr error
		step := 32 * 1024
		if act.Chunked {
			step = 7 * 1024
		}
		if act.Chunked && n == 0 {
			fl.Flush() // commit to chunked encoding before anything else happens
		}
		for written < n && werr == nil {
			end := written + step
			if end > n {
				end = n
			}
			var k int
			k, werr = w.Write(blob[written:end])
			written += k
			if act.Chunked {
				fl.Flush()
			}
		}
		if act.Kind == "partial" {
			fl.Flush()
			// with Content-Length framing a response whose N body bytes were all
			// sent is complete for the client, whatever happens to the connection next
			set(func() { e.Written = written; e.Delivered = !act.Chunked && werr == nil && written == len(blob) })
			kill(w, act.Rst)
			return
		}
		set(func() {
			e.Written = written
			if werr != nil {
				e.Err = werr.Error()
			} else {
				e.Delivered = true
			}
		})
	}
}

// chunkWriter is a plain io.Writer destination (no Seek, no Truncate).
type chunkWriter struct {
	mu     sync.Mutex
	chunks [][]byte
}

func (c *chunkWriter) Write(p []byte) (int, error) {
	c.mu.Lock()
	c.chunks = append(c.chunks, append([]byte(nil), p...))
	c.mu.Unlock()
	return len(p), nil
}

func (c *chunkWriter) bytes() []byte {
	c.mu.Lock()
	defer c.mu.Unlock()
	return bytes.Join(c.chunks, nil)
}

type outcome struct {
	spec     caseSpec
	err      string
	ok       bool
	events   []*reqEvent
	dstLen   int
	verdict  string // "" = fine
	what     string
	wall     time.Duration
	anyFull  bool
	failures int
	witness  map[string]interface{}
}

func runCase(t *testing.T, g *rig, tmp string, c caseSpec, order []int) *outcome {
	blob := blobBytes(c)
	d, err := core.NewDigester().FromBytes(blob)
	if err != nil {
		t.Fatalf("digest: %v", err)
	}
	st := &caseState{spec: c, blob: blob, digest: d, perOrig: make([]int, len(c.Origins))}
	for i := range c.Origins {
		st.addrs = append(st.addrs, g.addrs[order[i]])
	}
	g.mu.Lock()
	g.cases[d.Hex()] = st
	g.mu.Unlock()

	cluster := hostlist.Fixture(st.addrs...)
	cc := blobclient.NewClusterClient(blobclient.NewClientResolver(blobclient.NewProvider(), cluster))

	var dst io.Writer
	var read func() []byte
	switch c.Dst {
	case "buffer":
		b := &bytes.Buffer{}
		dst, read = b, b.Bytes
	case "file":
		p := filepath.Join(tmp, fmt.Sprintf("dst-%d", c.ID))
		f, err := os.Create(p)
		if err != nil {
			t.Fatalf("create dst: %v", err)
		}
		defer func() { _ = f.Close(); _ = os.Remove(p) }()
		dst = f
		read = func() []byte {
			b, err := os.ReadFile(p)
			if err != nil {
				t.Fatalf("read dst: %v", err)
			}
			return b
		}
	default:
		w := &chunkWriter{}
		dst, read = w, w.bytes
	}
	t0 := time.Now()
	derr := cc.DownloadBlob(context.Background(), c.Namespace, d, dst)
	o := &outcome{spec: c, wall: time.Since(t0), ok: derr == nil}
	if derr != nil {
		o.err = derr.Error()
		if len(o.err) > 400 {
			o.err = o.err[:400]
		}
	}
	g.mu.Lock()
	delete(g.cases, d.Hex())
	g.mu.Unlock()
	g.wg.Wait()

	got := read()
	o.dstLen = len(got)
	st.mu.Lock()
	o.events = st.events
	var partials [][]byte
	for _, e := range st.events {
		if e.Delivered {
			o.anyFull = true
		} else {
			o.failures++
		}
		if e.Action.Kind == "partial" && !e.Delivered {
			partials = append(partials, blob[:e.Written])
		}
	}
	st.mu.Unlock()
	if derr == nil {
		switch {
		case bytes.Equal(got, blob) && o.anyFull:
		case bytes.Equal(got, blob) && !o.anyFull && len(blob) > 0:
			// every byte arrived, but through responses that the origin never finished
			o.verdict = "success-without-a-completed-origin-response"
			o.what = "DownloadBlob returned nil although no origin response was delivered completely"
		case bytes.Equal(got, blob):
			// empty blob, empty destination: nothing to tell apart
			if !o.anyFull {
				o.verdict = "success-without-a-completed-origin-response"
				o.what = "DownloadBlob returned nil for an empty blob although every origin response was cut or failed"
			}
		default:
			// bytes that failed responses put on the wire (after an RST the client
			// may have received fewer of them than the origin wrote)
			sent := 0
			for _, e := range o.events {
				// a response whose N bytes were all written but whose connection was
				// then reset may still have reached the client only in part
				if e.Action.Kind == "partial" || e.Err != "" {
					sent += e.Written
				}
			}
			extra := len(got) - len(blob)
			switch {
			case extra > 0 && bytes.HasSuffix(got, blob) && extra <= sent:
				exact := bytes.Equal(got[:extra], bytes.Join(partials, nil))
				o.verdict = "success-delivers-failed-origin-bytes-before-blob"
				o.what = fmt.Sprintf("destination = %d extra bytes followed by the full blob (%d bytes); failed partial responses put %d bytes on the wire before the successful one (extra bytes equal exactly those bytes: %v)", extra, len(blob), sent, exact)
			case len(got) < len(blob) && bytes.HasPrefix(blob, got):
				o.verdict = "success-with-truncated-blob"
				o.what = fmt.Sprintf("destination holds only the first %d of %d blob bytes", len(got), len(blob))
			default:
				o.verdict = "success-with-wrong-bytes"
				o.what = fmt.Sprintf("destination has %d bytes, blob has %d", len(got), len(blob))
			}
		}
	}
	if o.verdict != "" {
		pre := got
		if len(pre) > 32 {
			pre = pre[:32]
		}
		o.witness = map[string]interface{}{
			"case": c, "what": o.what, "requests": o.events, "digest": d.String(),
			"dst_len": len(got), "blob_len": len(blob), "dst_sha256": sumHex(got), "blob_sha256": d.Hex(),
			"dst_first_bytes": fmt.Sprintf("%x", pre), "origin_order": st.addrs,
		}
	}
	return o
}

func sumHex(b []byte) string {
	d, _ := core.NewDigester().FromBytes(b)
	return d.Hex()
}

func TestC35(t *testing.T) {
	run := ev.Start(t, "C35", "fault_enumeration",
		"PRNG-generated scripted fault sequences for one ClusterClient.DownloadBlob call over 1-3 real HTTP origins: per origin 0-2 scripted answers plus a steady answer from "+
			"{full body (Content-Length|chunked), first j body bytes then disconnect (CL|chunked, FIN|RST, j in {0,1,mid,N-1,N}), 500/502/503/504, 404, 400/403/409, 202 (<=2 per case), dropped connection}; "+
			"blob 0 B-1 MiB; destination bytes.Buffer, *os.File or plain io.Writer. A case is non-trivial when at least one origin request was answered with something other than a completely delivered blob; "+
			"distinct = distinct case description.")
	defer run.Finish()
	run.Assume("origins are scripted HTTP servers; only Content-Length and chunked framing are generated (an EOF-delimited body cannot be told from a truncated one by any client that does not verify the digest)")
	run.Assume("the cluster client's poll back-off is the production one (1 s initial); 202 answers are limited to two per case to keep the run short")

	r := run.Rand("cases")
	n := run.N(400, 12000)
	cases := make([]caseSpec, n)
	orders := make([][]int, n)
	for i := range cases {
		cases[i] = genCase(r, i, run.Quick())
		orders[i] = r.Perm(3)
	}
	tmp := ev.TempDir(t, "c35-")
	const workers = 24
	outcomes := make([]*outcome, n)
	replay := run.ReplayCase()
	var wg sync.WaitGroup
	for wi := 0; wi < workers; wi++ {
		wg.Add(1)
		go func(wi int) {
			defer wg.Done()
			g := newRig()
			defer g.close()
			for i := wi; i < n; i += workers {
				if replay != "" && replay != strconv.Itoa(i) {
					continue
				}
				outcomes[i] = runCase(t, g, tmp, cases[i], orders[i])
			}
		}(wi)
	}
	wg.Wait()

	for i, o := range outcomes {
		if o == nil {
			continue
		}
		run.Case(ev.JSON(o.spec), o.failures > 0)
		run.Count("origin_blob_requests", int64(len(o.events)))
		for _, e := range o.events {
			k := e.Action.Kind
			if k == "status" {
				k = fmt.Sprintf("status_%d", e.Action.Code)
			}
			run.Count("answer_"+k, 1)
		}
		if o.ok {
			run.Count("download_success", 1)
			if o.failures > 0 {
				run.Count("download_success_after_failed_origin_request", 1)
			}
		} else {
			run.Count("download_error", 1)
			if o.anyFull {
				run.Count("download_error_although_some_response_was_complete", 1)
			}
		}
		sig := []string{}
		for _, e := range o.events {
			sig = append(sig, fmt.Sprintf("%d:%s%d", e.Origin, e.Action.Kind, e.Action.Code))
		}
		run.Distinct("request_sequences", strings.Join(sig, ","))
		if run.WantSample() && i%67 == 0 {
			run.Sample(map[string]interface{}{"case": o.spec, "requests": o.events, "ok": o.ok, "err": o.err, "dst_len": o.dstLen})
		}
		if o.wall > 5*time.Minute {
			run.Inconclusive(fmt.Sprintf("case %d took %s", i, o.wall))
		}
		if o.verdict != "" {
			run.Violation(o.verdict, strconv.Itoa(i), o.witness)
		}
	}
}
