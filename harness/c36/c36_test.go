// C36: backend name/path mapping round-trips for every name.
//
// Oracle-gen monitor: for every pather scheme, generated roots (any depth,
// with / without trailing slash, the filesystem root, relative) and generated
// valid names, NameFromBlobPath(BlobPath(name)) must equal name and BlobPath
// must lie under BasePath. The real pather code is executed on every case.
package c36

import (
	"fmt"
	"math/rand"
	"strings"
	"testing"

	"github.com/uber/kraken/lib/backend/namepath"

	"verif/harness/internal/ev"
	"verif/harness/internal/gen"
)

func genRoot(r *rand.Rand) (root string, class string) {
	depth := r.Intn(5) // 0 = filesystem root or empty-relative
	abs := r.Intn(4) != 0
	var segs []string
	for i := 0; i < depth; i++ {
		segs = append(segs, gen.PathSegment(r))
	}
	root = strings.Join(segs, "/")
	if abs {
		root = "/" + root
	}
	trailing := r.Intn(2) == 0
	if depth == 0 {
		if abs {
			return "/", "fsroot"
		}
		// a relative root needs at least one segment
		root = gen.PathSegment(r)
		depth = 1
	}
	class = fmt.Sprintf("abs=%v,trailing=%v", abs, trailing)
	if trailing {
		root += "/"
	}
	return root, class
}

func TestC36(t *testing.T) {
	run := ev.Start(t, "C36", "exploration",
		"PRNG-generated (scheme, root, name) triples; root depth 0-4, absolute/relative, with/without trailing slash, incl. '/'; "+
			"names: docker repo:tag (nested repos, tags incl. _uploads/current/link-like), 64-hex digests, identity names flat and nested. "+
			"A case is non-trivial when BlobPath succeeded; distinct = distinct (scheme, root, name).")
	defer run.Finish()
	r := run.Rand("main")
	n := run.N(60000, 3000000)
	schemes := []string{namepath.DockerTag, namepath.ShardedDockerBlob, namepath.Identity}
	for i := 0; i < n; i++ {
		scheme := schemes[i%3]
		root, rootClass := genRoot(r)
		var name string
		switch scheme {
		case namepath.DockerTag:
			name = gen.DockerRepo(r) + ":" + gen.DockerTag(r)
		case namepath.ShardedDockerBlob:
			name = gen.Hex(r, 64)
		case namepath.Identity:
			name = gen.IdentityName(r)
		}
		caseID := fmt.Sprintf("%s|%s|%s", scheme, root, name)
		if rc := run.ReplayCase(); rc != "" && rc != caseID {
			continue
		}
		p, err := namepath.New(root, scheme)
		if err != nil {
			run.Violation("new-pather-error/"+scheme, caseID, err.Error())
			continue
		}
		bp, err := p.BlobPath(name)
		if err != nil {
			run.Case(caseID, false)
			run.Violation("blobpath-rejects-valid-name/"+scheme, caseID, map[string]string{"root": root, "name": name, "err": err.Error()})
			continue
		}
		run.Case(caseID, true)
		run.Count("roots_"+rootClass, 1)
		if run.WantSample() && i%977 == 0 {
			run.Sample(map[string]string{"scheme": scheme, "root": root, "name": name, "path": bp})
		}
		base := p.BasePath()
		cb := strings.TrimSuffix(base, "/")
		if !(strings.HasPrefix(bp, cb+"/") || cb == "" || base == "/" && strings.HasPrefix(bp, "/")) {
			run.Violation("blobpath-outside-basepath/"+scheme+"/"+rootClass, caseID,
				map[string]string{"root": root, "name": name, "path": bp, "base": base})
		}
		back, err := p.NameFromBlobPath(bp)
		if err != nil {
			run.Violation("roundtrip-error/"+scheme+"/"+rootClass, caseID,
				map[string]string{"root": root, "name": name, "path": bp, "err": err.Error()})
			continue
		}
		if back != name {
			run.Violation("roundtrip-mismatch/"+scheme+"/"+rootClass, caseID,
				map[string]string{"root": root, "name": name, "path": bp, "got": back})
		}
		// listings hand back keys with a leading slash re-attached (s3: path.Join("/", key));
		// for absolute roots that is the same string, checked above.
	}
}
