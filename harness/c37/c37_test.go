// C37: backend clients honour the storage contract.
//
// Model-diff monitor. PRNG histories of Upload / overwrite / Download / Stat /
// List (non-paginated and paginated, page sizes 1-5) over 3-8 names (+2 names
// that are never uploaded) run against the REAL backend clients:
//
//   - testfs:  testfs.Client against a real testfs.Server (HTTP, files on disk),
//     all three name pathers, relative roots;
//   - sql:     sqlbackend.Client on gorm + sqlite in-memory;
//   - s3:      s3backend.Client (all three pathers) with an in-memory S3 injected
//     through WithS3. The in-memory S3 sits under the real AWS SDK (see
//     mems3.go): real s3manager Downloader / Uploader and the SDK's own
//     ListObjectsV2Pages paginator run on top of it; it serves full or short
//     pages, honours Prefix / MaxKeys / ContinuationToken and may already hold
//     foreign keys (registry layout files that are not tags / blobs);
//   - shadow:  shadowbackend.Client over sql + testfs, either one active.
//
// A reference model name -> last uploaded bytes judges every return value:
// Download returns exactly the last uploaded bytes, Stat reports their length
// (testfs, S3), never-uploaded names give backenderrors.ErrBlobNotFound, and a
// listing followed through its continuation tokens returns every stored name
// under the prefix exactly once (and nothing that is not stored).
package c37

import (
	"bytes"
	"errors"
	"fmt"
	"io"
	"math/rand"
	"net"
	"net/http"
	"os"
	"path"
	"sort"
	"strings"
	"sync"
	"testing"

	"github.com/uber-go/tally"
	"go.uber.org/zap"

	"github.com/uber/kraken/lib/backend"
	"github.com/uber/kraken/lib/backend/backenderrors"
	"github.com/uber/kraken/lib/backend/namepath"
	"github.com/uber/kraken/lib/backend/s3backend"
	"github.com/uber/kraken/lib/backend/shadowbackend"
	"github.com/uber/kraken/lib/backend/sqlbackend"
	"github.com/uber/kraken/lib/backend/testfs"
	"github.com/uber/kraken/utils/log"

	"verif/harness/internal/ev"
	"verif/harness/internal/gen"
)

// ---- history spec -------------------------------------------------------------

type op struct {
	Kind      string `json:"k"` // upload | download | stat | list
	Name      int    `json:"n,omitempty"`
	Size      int    `json:"size,omitempty"`
	Seed      int64  `json:"seed,omitempty"`
	Text      bool   `json:"text,omitempty"`    // digest-like text content (what tags hold) instead of raw bytes
	NoSeek    bool   `json:"noseek,omitempty"`  // upload source is a plain io.Reader
	WriterAt  bool   `json:"wat,omitempty"`     // download destination also implements io.WriterAt
	Prefix    string `json:"prefix,omitempty"`  // list
	Paginated bool   `json:"paged,omitempty"`   // list
	MaxKeys   int    `json:"maxkeys,omitempty"` // list
}

type spec struct {
	Kind   string   `json:"backend"` // testfs | sql | s3 | shadow-sql-active | shadow-testfs-active
	Pather string   `json:"pather,omitempty"`
	Root   string   `json:"root,omitempty"`
	Names  []string `json:"names"` // the last two are never uploaded
	Junk   []string `json:"foreign_keys,omitempty"`

	ListMaxKeys  int   `json:"s3_list_max_keys,omitempty"`
	DlPart       int64 `json:"s3_download_part_size,omitempty"`
	DlConc       int   `json:"s3_download_concurrency,omitempty"`
	ShortPages   bool  `json:"s3_short_pages,omitempty"`
	MaxBlob      int   `json:"max_blob"`
	Ops          []op  `json:"ops"`
	uploadable   int
	tracksSize   bool
	sqlSemantics bool
}

var kinds = []string{"testfs", "testfs", "sql", "s3", "s3", "s3", "shadow-sql-active", "shadow-testfs-active"}

func isPathPrefix(a, b string) bool { return a == b || strings.HasPrefix(b, a+"/") }

func genNames(r *rand.Rand, s *spec) {
	n := 3 + r.Intn(6) + 2
	seen := map[string]bool{}
	var repos []string
	for len(s.Names) < n {
		var name string
		switch s.Pather {
		case namepath.DockerTag:
			// few repositories, several tags each; nested repos sharing components
			if len(repos) == 0 || (len(repos) < 3 && r.Intn(3) == 0) {
				repo := gen.DockerRepo(r)
				if len(repos) > 0 && r.Intn(2) == 0 {
					// a sibling whose name extends an existing repo's name as a string / as a path
					if r.Intn(2) == 0 {
						repo = repos[0] + gen.DockerRepoComponent(r)
					} else {
						repo = repos[0] + "/" + gen.DockerRepoComponent(r)
					}
				}
				repos = append(repos, repo)
			}
			name = repos[r.Intn(len(repos))] + ":" + gen.DockerTag(r)
		case namepath.ShardedDockerBlob:
			name = gen.Hex(r, 64)
			if len(s.Names) > 0 && r.Intn(3) == 0 {
				name = s.Names[0][:2] + name[2:] // same shard
			}
		default:
			name = gen.IdentityName(r)
			if len(s.Names) > 0 && r.Intn(3) == 0 {
				// share a directory with an earlier name
				if i := strings.LastIndex(s.Names[0], "/"); i > 0 {
					name = s.Names[0][:i] + "/" + gen.PathSegment(r)
				}
			}
		}
		if seen[name] {
			continue
		}
		if strings.HasPrefix(s.Kind, "testfs") || strings.HasPrefix(s.Kind, "shadow") {
			// files on disk: a name must not be a directory of another one
			clash := false
			for _, o := range s.Names {
				if s.Pather == namepath.Identity && (isPathPrefix(o, name) || isPathPrefix(name, o)) {
					clash = true
				}
			}
			if clash {
				continue
			}
		}
		seen[name] = true
		s.Names = append(s.Names, name)
	}
	s.uploadable = n - 2
}

func repoOf(name string) string { return name[:strings.Index(name, ":")] }

func genPrefix(r *rand.Rand, s *spec) string {
	name := s.Names[r.Intn(len(s.Names))]
	if s.sqlSemantics {
		switch r.Intn(5) {
		case 0:
			return ""
		case 1:
			return "/" + repoOf(name) + "/_manifests/tags"
		default:
			return repoOf(name) + "/_manifests/tags"
		}
	}
	cut := func(p string) string { // a string prefix ending inside a component
		if len(p) < 2 {
			return p
		}
		return p[:1+r.Intn(len(p)-1)]
	}
	dirOf := func(p string) string { // a directory prefix
		parts := strings.Split(p, "/")
		return strings.Join(parts[:1+r.Intn(len(parts))], "/")
	}
	onDisk := s.Kind != "s3"
	switch s.Pather {
	case namepath.DockerTag:
		repo := repoOf(name)
		switch x := r.Intn(10); {
		case x < 2:
			return ""
		case x < 6:
			return repo + "/_manifests/tags"
		case x < 8:
			return dirOf(repo)
		case x < 9 && !onDisk:
			return cut(repo)
		default:
			return repo + "/_manifests"
		}
	case namepath.ShardedDockerBlob:
		switch x := r.Intn(10); {
		case x < 3:
			return ""
		case x < 5:
			return "sha256"
		case x < 8:
			return "sha256/" + name[:2]
		case x < 9 && !onDisk:
			return "sha256/" + name[:1]
		default:
			return "sha256/" + name[:2] + "/" + name
		}
	default:
		switch x := r.Intn(10); {
		case x < 3:
			return ""
		case x < 7:
			return dirOf(name)
		case x < 9 && !onDisk:
			return cut(name)
		default:
			return dirOf(name)
		}
	}
}

func genSpec(r *rand.Rand) spec {
	s := spec{Kind: kinds[r.Intn(len(kinds))], MaxBlob: 200000}
	pathers := []string{namepath.DockerTag, namepath.ShardedDockerBlob, namepath.Identity}
	switch s.Kind {
	case "testfs":
		s.Pather = pathers[r.Intn(3)]
		s.Root = []string{"", "root", "a/b.c", "x_1/y/z"}[r.Intn(4)]
		s.tracksSize = true
	case "sql":
		s.Pather = namepath.DockerTag
		s.MaxBlob = 2000
		s.sqlSemantics = true
	case "s3":
		s.Pather = pathers[r.Intn(3)]
		s.Root = []string{"/", "/root", "/a/b.c", "/x_1/y/z"}[r.Intn(4)]
		s.ListMaxKeys = []int{1, 2, 3, 5, 250}[r.Intn(5)]
		s.DlPart = []int64{1, 7, 64, 1024, 65536, 5 << 20}[r.Intn(6)]
		s.DlConc = 1 + r.Intn(10)
		s.ShortPages = r.Intn(3) == 0
		s.tracksSize = true
		if lim := int(s.DlPart) * 40; lim < s.MaxBlob {
			s.MaxBlob = lim // at most ~40 ranged GETs per download
		}
	case "shadow-sql-active":
		s.Pather = namepath.DockerTag
		s.Root = "shadow"
		s.MaxBlob = 2000
		s.sqlSemantics = true
	case "shadow-testfs-active":
		s.Pather = namepath.DockerTag
		s.Root = "shadow"
		s.MaxBlob = 2000
		s.tracksSize = true
	}
	genNames(r, &s)
	if s.Kind == "s3" && s.Pather != namepath.Identity && r.Intn(2) == 0 {
		// registry layout files living next to the tags / blobs in the same bucket
		base := strings.TrimPrefix(path.Join(s.Root, "docker/registry/v2"), "/")
		for k := 1 + r.Intn(4); k > 0; k-- {
			name := s.Names[r.Intn(len(s.Names))]
			if s.Pather == namepath.DockerTag {
				repo := repoOf(name)
				switch r.Intn(3) {
				case 0:
					s.Junk = append(s.Junk, base+"/repositories/"+repo+"/_layers/sha256/"+gen.Hex(r, 64)+"/link")
				case 1:
					s.Junk = append(s.Junk, base+"/repositories/"+repo+"/_manifests/revisions/sha256/"+gen.Hex(r, 64)+"/link")
				default:
					s.Junk = append(s.Junk, base+"/repositories/"+repo+"/_manifests/tags/"+gen.DockerTag(r)+"/index/sha256/"+gen.Hex(r, 64)+"/link")
				}
			} else {
				s.Junk = append(s.Junk, base+"/blobs/sha256/"+name[:2]+"/"+gen.Hex(r, 64)+"/_startedat")
			}
		}
	}
	n := 20 + r.Intn(41)
	for i := 0; i < n; i++ {
		var o op
		switch x := r.Intn(100); {
		case x < 40:
			// (shadow refuses non-seekable sources by design; on s3 every plain-reader upload makes the SDK allocate a 5 MB part buffer)
			o = op{Kind: "upload", Name: r.Intn(s.uploadable), Seed: r.Int63(), NoSeek: !strings.HasPrefix(s.Kind, "shadow") && (s.Kind == "s3" && r.Intn(40) == 0 || s.Kind != "s3" && r.Intn(5) == 0)}
			switch y := r.Intn(100); {
			case y < 4:
				o.Size = 0
			case y < 55:
				o.Size = 1 + r.Intn(64)
			case y < 94:
				o.Size = 65 + r.Intn(4032)
			default:
				o.Size = 4097 + r.Intn(200000-4097)
			}
			if o.Size > s.MaxBlob {
				o.Size = 1 + r.Intn(s.MaxBlob)
			}
			o.Text = s.Pather == namepath.DockerTag && r.Intn(3) != 0
		case x < 62:
			o = op{Kind: "download", Name: r.Intn(len(s.Names)), WriterAt: r.Intn(2) == 0}
		case x < 78:
			o = op{Kind: "stat", Name: r.Intn(len(s.Names))}
		default:
			o = op{Kind: "list", Prefix: genPrefix(r, &s), Paginated: r.Intn(3) != 0, MaxKeys: 1 + r.Intn(5)}
		}
		s.Ops = append(s.Ops, o)
	}
	return s
}

func content(o op) []byte {
	r := rand.New(rand.NewSource(o.Seed))
	if o.Text {
		// what a tag holds: "sha256:<hex>" (padded / cut to the requested size)
		b := []byte("sha256:" + gen.Hex(r, 64))
		for len(b) < o.Size {
			b = append(b, []byte(gen.Hex(r, 32))...)
		}
		return b[:o.Size]
	}
	return gen.Bytes(r, o.Size)
}

// ---- helpers ------------------------------------------------------------------

// plainReader hides every method of the wrapped reader except Read.
type plainReader struct{ r io.Reader }

func (p plainReader) Read(b []byte) (int, error) { return p.r.Read(b) }

// watBuffer is an io.Writer that also implements io.WriterAt (like the files
// kraken downloads into); safe for the concurrent WriteAt calls of a ranged download.
type watBuffer struct {
	mu  sync.Mutex
	buf []byte
}

func (w *watBuffer) WriteAt(p []byte, off int64) (int, error) {
	w.mu.Lock()
	defer w.mu.Unlock()
	if need := int(off) + len(p); need > len(w.buf) {
		w.buf = append(w.buf, make([]byte, need-len(w.buf))...)
	}
	copy(w.buf[off:], p)
	return len(p), nil
}

func (w *watBuffer) Write(p []byte) (int, error) {
	w.mu.Lock()
	defer w.mu.Unlock()
	w.buf = append(w.buf, p...)
	return len(p), nil
}

func digest(b []byte) string {
	if len(b) <= 24 {
		return fmt.Sprintf("%d:%x", len(b), b)
	}
	return fmt.Sprintf("%d:%x..%s", len(b), b[:8], gen.SHA256Hex(b)[:12])
}

// env is a worker's testfs server: a real testfs.Server behind a real HTTP
// listener. It is replaced (and its directory removed) every 200 histories so
// that the directory kraken's testfs.NewServer keeps under /tmp stays small.
// (A plain http.Server, not httptest.Server: closing an httptest.Server closes
// the idle connections of http.DefaultTransport, which the other workers'
// testfs clients are using.)
type env struct {
	t      *testing.T
	server *testfs.Server
	srv    *http.Server
	addr   string
	uses   int
}

func (e *env) start() {
	if e.server != nil && e.uses < 200 {
		e.uses++
		return
	}
	e.close()
	ln, err := net.Listen("tcp", "127.0.0.1:0")
	if err != nil {
		e.t.Fatalf("listen: %v", err)
	}
	e.server = testfs.NewServer()
	e.srv = &http.Server{Handler: e.server.Handler()}
	e.addr = ln.Addr().String()
	e.uses = 1
	go e.srv.Serve(ln)
}

func (e *env) close() {
	if e.server == nil {
		return
	}
	e.srv.Close()
	e.server.Cleanup() // testfs.NewServer keeps its files under /tmp
	e.server = nil
}

// build creates the real client for a history. dirTag prefixes roots / bucket
// names with the history id.
func (e *env) build(s *spec, dirTag string) (client backend.Client, s3m *memS3, root string, err error) {
	switch s.Kind {
	case "testfs":
		e.start()
		root = path.Join(dirTag, s.Root)
		c, err := testfs.NewClient(testfs.Config{Addr: e.addr, Root: root, NamePath: s.Pather}, tally.NoopScope)
		return c, nil, root, err
	case "sql":
		c, err := sqlbackend.NewClient(sqlbackend.Config{Dialect: "sqlite3", ConnectionString: ":memory:"}, sqlbackend.UserAuthConfig{}, tally.NoopScope)
		return c, nil, "", err
	case "s3":
		root = s.Root
		s3m = newMemS3("bucket-"+dirTag, s.ShortPages)
		cfg := s3backend.Config{
			Username: "u", Region: "us-east-1", Bucket: "bucket-" + dirTag, RootDirectory: root, NamePath: s.Pather,
			ListMaxKeys: s.ListMaxKeys, DownloadPartSize: s.DlPart, DownloadConcurrency: s.DlConc,
			UploadPartSize: 5 << 20, UploadConcurrency: 3,
		}
		api, err := s3m.client(cfg.DownloadPartSize, cfg.DownloadConcurrency, cfg.UploadPartSize, cfg.UploadConcurrency)
		if err != nil {
			return nil, nil, "", err
		}
		c, err := s3backend.NewClient(cfg, s3backend.UserAuthConfig{"u": s3backend.AuthConfig{}}, tally.NoopScope, s3backend.WithS3(api))
		return c, s3m, root, err
	case "shadow-sql-active", "shadow-testfs-active":
		e.start()
		root = path.Join(dirTag, s.Root)
		sqlCfg := map[string]interface{}{"sql": map[string]interface{}{"dialect": "sqlite3", "connection_string": ":memory:"}}
		fsCfg := map[string]interface{}{"testfs": map[string]interface{}{"addr": e.addr, "root": root, "name_path": s.Pather}}
		cfg := shadowbackend.Config{ActiveClientConfig: sqlCfg, ShadowClientConfig: fsCfg}
		if s.Kind == "shadow-testfs-active" {
			cfg = shadowbackend.Config{ActiveClientConfig: fsCfg, ShadowClientConfig: sqlCfg}
		}
		auth := backend.AuthConfig{"sql": map[string]interface{}{}, "testfs": map[string]interface{}{}}
		c, err := shadowbackend.NewClient(cfg, auth, tally.NoopScope)
		return c, nil, root, err
	}
	return nil, nil, "", fmt.Errorf("unknown kind %s", s.Kind)
}

// ---- the test -------------------------------------------------------------------

func TestC37(t *testing.T) {
	run := ev.Start(t, "C37", "exploration",
		"PRNG histories (20-60 ops: 40% upload/overwrite with sizes 0..200 kB (2 kB on sql), seekable and plain readers; download into plain and WriterAt destinations; stat; list with generated prefixes, non-paginated and paginated with page size 1-5) "+
			"over 3-8 names + 2 never-uploaded names per history, on testfs (3 pathers, 4 relative roots), sql (sqlite), s3 (3 pathers, 4 roots, ListMaxKeys 1-250, download part size 1 B-5 MB, concurrency 1-10, short pages, foreign keys) and shadow (sql+testfs, either active). "+
			"A history is non-trivial when it overwrote at least one name, downloaded at least one stored and one missing name and completed at least one listing that had to return >= 2 names; distinct = distinct generated history. "+
			"Plus one S3 multipart case (11 MB through a plain reader, 5 MB parts).")
	defer run.Finish()
	run.Assume("the in-memory S3 (mems3.go) behaves like S3 for HeadObject / GetObject with Range / PutObject / multipart upload / ListObjectsV2; a ranged GET of an empty object is answered 200 (not modelled: 416)")
	run.Assume("names are valid for the configured pather (C36 covers the name/path mapping); on file-system backed backends no name is a directory of another")
	run.Assume("sqlite in-memory stands in for the SQL server; the sql backend lists repositories for the empty prefix ('repo:dummy') and tags for '<repo>/_manifests/tags', as its code documents")
	log.SetGlobalLogger(zap.NewNop().Sugar())
	os.Unsetenv("AWS_CA_BUNDLE") // s3backend.NewClient builds an SDK session of its own; nothing here talks TLS

	const workers = 12
	n := run.N(1200, 24000)
	var wg sync.WaitGroup
	for k := 0; k < workers; k++ {
		wg.Add(1)
		go func(k int) {
			defer wg.Done()
			e := &env{t: t}
			defer e.close()
			for ci := k; ci < n; ci += workers {
				caseID := fmt.Sprintf("hist-%d", ci)
				if rc := run.ReplayCase(); rc != "" && rc != caseID {
					continue
				}
				s := genSpec(run.Rand(caseID))
				runHistory(run, e, caseID, &s)
				run.Count("histories_"+s.Kind, 1)
				if run.WantSample() && ci%331 == 0 {
					c := s
					c.Ops = c.Ops[:5]
					run.Sample(c)
				}
			}
		}(k)
	}
	wg.Wait()
	if rc := run.ReplayCase(); rc == "" || rc == "s3-multipart" {
		multipartCase(t, run)
	}
}

func runHistory(run *ev.Run, e *env, caseID string, s *spec) {
	client, s3m, root, err := e.build(s, caseID)
	if err != nil {
		run.Violation(s.Kind+"/new-client-error", caseID, map[string]interface{}{"spec": s, "err": err.Error()})
		return
	}
	defer client.Close()
	pather, err := namepath.New(root, s.Pather)
	if err != nil {
		e.t.Errorf("pather: %v", err)
		return
	}
	for _, k := range s.Junk {
		s3m.put(k, []byte("foreign"))
	}
	keyOf := func(name string) string {
		p, err := pather.BlobPath(name)
		if err != nil {
			e.t.Errorf("BlobPath(%q): %v", name, err)
		}
		return p
	}

	model := map[string][]byte{}
	uploads := map[string]int{}
	overwrote, gotStored, gotMissing, bigList := false, false, false, false
	counts := map[string]int64{}
	defer func() {
		for k, v := range counts {
			run.Count(k, v)
		}
	}()
	sig := func(what string) string { return s.Kind + "/" + what }
	wit := func(step int, extra map[string]interface{}) map[string]interface{} {
		m := map[string]interface{}{"spec": s, "failed_at_step": step, "op": s.Ops[step]}
		for k, v := range extra {
			m[k] = v
		}
		return m
	}

	for step, o := range s.Ops {
		switch o.Kind {
		case "upload":
			name := s.Names[o.Name]
			data := content(o)
			var src io.Reader = bytes.NewReader(data)
			if o.NoSeek {
				src = plainReader{src}
			}
			if err := client.Upload("ns", name, src); err != nil {
				run.Violation(sig("upload/error"), caseID, wit(step, map[string]interface{}{"err": err.Error()}))
				continue
			}
			if _, had := model[name]; had {
				overwrote = true
				counts["overwrites_"+s.Kind]++
			}
			model[name] = data
			uploads[name]++
			counts["uploads_"+s.Kind]++

		case "download":
			name := s.Names[o.Name]
			want, stored := model[name]
			var got []byte
			var err error
			if o.WriterAt {
				w := &watBuffer{}
				err = client.Download("ns", name, w)
				got = w.buf
			} else {
				var b bytes.Buffer
				err = client.Download("ns", name, &b)
				got = b.Bytes()
			}
			counts["downloads_"+s.Kind]++
			switch {
			case !stored && err == backenderrors.ErrBlobNotFound:
				gotMissing = true
			case !stored && err == nil:
				run.Violation(sig("download/never-uploaded-name-returns-data"), caseID, wit(step, map[string]interface{}{"got": digest(got)}))
			case !stored:
				run.Violation(sig("download/never-uploaded-name-not-ErrBlobNotFound"), caseID, wit(step, map[string]interface{}{"err": err.Error()}))
			case err != nil:
				cls := "error"
				if err == backenderrors.ErrBlobNotFound {
					cls = "stored-name-reported-not-found"
				}
				run.Violation(sig("download/"+cls), caseID, wit(step, map[string]interface{}{"err": err.Error(), "want": digest(want)}))
			case !bytes.Equal(got, want):
				cls := "bytes-differ-from-last-upload"
				if len(want) == 0 {
					cls = "overwrite-with-empty-content-not-applied"
				}
				run.Violation(sig("download/"+cls), caseID, wit(step, map[string]interface{}{"got": digest(got), "want": digest(want), "uploads_of_name": uploads[name]}))
			default:
				gotStored = true
				counts["downloads_equal_last_upload_"+s.Kind]++
			}

		case "stat":
			name := s.Names[o.Name]
			want, stored := model[name]
			info, err := client.Stat("ns", name)
			counts["stats_"+s.Kind]++
			switch {
			case !stored && err == backenderrors.ErrBlobNotFound:
			case !stored && err == nil:
				run.Violation(sig("stat/never-uploaded-name-found"), caseID, wit(step, nil))
			case !stored:
				run.Violation(sig("stat/never-uploaded-name-not-ErrBlobNotFound"), caseID, wit(step, map[string]interface{}{"err": err.Error()}))
			case err != nil:
				run.Violation(sig("stat/error-for-stored-name"), caseID, wit(step, map[string]interface{}{"err": err.Error()}))
			case s.tracksSize && info.Size != int64(len(want)):
				run.Violation(sig("stat/size-differs-from-last-upload"), caseID, wit(step, map[string]interface{}{"size": info.Size, "want": len(want)}))
			}

		case "list":
			// expected sets
			required, allowed := map[string]bool{}, map[string]bool{}
			if s.sqlSemantics {
				if o.Prefix == "" {
					for name := range model {
						required[repoOf(name)+":dummy"] = true
					}
				} else {
					repo := strings.TrimPrefix(strings.TrimSuffix(o.Prefix, "/_manifests/tags"), "/")
					for name := range model {
						if repoOf(name) == repo {
							required[name] = true
						}
					}
				}
				allowed = required
			} else {
				lp := path.Join(pather.BasePath(), o.Prefix)
				for name := range model {
					k := keyOf(name)
					if lp == "" || lp == "/" || strings.HasPrefix(k, strings.TrimSuffix(lp, "/")+"/") {
						required[name] = true
					}
					if strings.HasPrefix(k, lp) {
						allowed[name] = true
					}
				}
			}
			mode := "list-nonpaginated"
			var all []string
			tokenLeft := ""
			var lerr error
			pages := 0
			if !o.Paginated {
				res, err := client.List(o.Prefix)
				if err != nil {
					lerr = err
				} else {
					all, tokenLeft = res.Names, res.ContinuationToken
					pages = 1
				}
			} else {
				mode = "list-paginated"
				token := ""
				for {
					opts := []backend.ListOption{backend.ListWithPagination(), backend.ListWithMaxKeys(o.MaxKeys)}
					if token != "" {
						opts = append(opts, backend.ListWithContinuationToken(token))
					}
					res, err := client.List(o.Prefix, opts...)
					if err != nil {
						lerr = err
						break
					}
					pages++
					all = append(all, res.Names...)
					token = res.ContinuationToken
					if token == "" {
						break
					}
					if pages > len(model)+len(s.Junk)+5 {
						run.Violation(sig(mode+"/continuation-tokens-never-end"), caseID, wit(step, map[string]interface{}{"pages": pages, "names": all}))
						break
					}
				}
			}
			counts[strings.ReplaceAll(mode, "-", "_")+"_"+s.Kind]++
			counts["list_pages_"+s.Kind] += int64(pages)
			if lerr != nil {
				switch {
				case o.Paginated && strings.Contains(s.Kind, "testfs") && !s.sqlSemantics && strings.Contains(lerr.Error(), "pagination not supported"):
					counts["list_pagination_not_supported_testfs"]++ // testfs declares it does not paginate
				case len(required) == 0 && !s.sqlSemantics && s.Kind != "s3":
					counts["list_error_for_prefix_without_names_testfs"]++ // walking a directory that does not exist
				default:
					run.Violation(sig(mode+"/error"), caseID, wit(step, map[string]interface{}{"err": lerr.Error(), "required": keys(required)}))
				}
				continue
			}
			seen := map[string]int{}
			for _, nme := range all {
				seen[nme]++
			}
			var missing, twice, unexpected []string
			for nme := range required {
				if seen[nme] == 0 {
					missing = append(missing, nme)
				}
			}
			for nme, c := range seen {
				if c > 1 {
					twice = append(twice, nme)
				}
				if !allowed[nme] {
					unexpected = append(unexpected, nme)
				}
			}
			sort.Strings(missing)
			sort.Strings(twice)
			sort.Strings(unexpected)
			w := func() map[string]interface{} {
				return wit(step, map[string]interface{}{"returned": all, "required": keys(required), "missing": missing, "twice": twice,
					"unexpected": unexpected, "pages": pages, "continuation_token_left": tokenLeft})
			}
			if len(missing) > 0 {
				if !o.Paginated && tokenLeft != "" {
					run.Violation(sig(mode+"/names-missing-with-continuation-token"), caseID, w())
				} else {
					run.Violation(sig(mode+"/stored-name-missing"), caseID, w())
				}
			} else if !o.Paginated && tokenLeft != "" {
				run.Violation(sig(mode+"/continuation-token-without-pagination"), caseID, w())
			}
			if len(twice) > 0 {
				run.Violation(sig(mode+"/name-listed-twice"), caseID, w())
			}
			if len(unexpected) > 0 {
				run.Violation(sig(mode+"/name-not-stored-under-prefix"), caseID, w())
			}
			if len(required) >= 2 && len(missing) == 0 {
				bigList = true
			}
			if o.Paginated && pages >= 2 {
				counts["multi_page_listings_"+s.Kind]++
			}
		}
	}
	if s3m != nil {
		s3m.mu.Lock()
		counts["s3_get_object_calls"] += int64(s3m.nGet)
		counts["s3_list_objects_v2_calls"] += int64(s3m.nList)
		s3m.mu.Unlock()
	}
	run.Case(ev.JSON(s), overwrote && gotStored && gotMissing && bigList)
}

func keys(m map[string]bool) []string {
	out := make([]string, 0, len(m))
	for k := range m {
		out = append(out, k)
	}
	sort.Strings(out)
	return out
}

// multipartCase pushes one blob through the SDK's multipart upload path.
func multipartCase(t *testing.T, run *ev.Run) {
	caseID := "s3-multipart"
	r := run.Rand(caseID)
	data := gen.Bytes(r, 11<<20+12345)
	m := newMemS3("bucket-mp", false)
	cfg := s3backend.Config{Username: "u", Region: "us-east-1", Bucket: "bucket-mp", RootDirectory: "/root", NamePath: namepath.ShardedDockerBlob,
		DownloadPartSize: 1 << 20, DownloadConcurrency: 5, UploadPartSize: 5 << 20, UploadConcurrency: 3}
	api, err := m.client(cfg.DownloadPartSize, cfg.DownloadConcurrency, cfg.UploadPartSize, cfg.UploadConcurrency)
	if err != nil {
		t.Errorf("mem s3: %v", err)
		return
	}
	c, err := s3backend.NewClient(cfg, s3backend.UserAuthConfig{"u": s3backend.AuthConfig{}}, tally.NoopScope, s3backend.WithS3(api))
	if err != nil {
		run.Violation("s3/new-client-error", caseID, err.Error())
		return
	}
	name := gen.SHA256Hex(data)
	if err := c.Upload("ns", name, plainReader{bytes.NewReader(data)}); err != nil {
		run.Violation("s3/upload/error", caseID, map[string]interface{}{"err": err.Error(), "size": len(data)})
		return
	}
	m.mu.Lock()
	mp := m.nMultipart
	m.mu.Unlock()
	w := &watBuffer{}
	err = c.Download("ns", name, w)
	switch {
	case err != nil:
		run.Violation("s3/download/error", caseID, map[string]interface{}{"err": err.Error(), "size": len(data)})
	case !bytes.Equal(w.buf, data):
		run.Violation("s3/download/bytes-differ-from-last-upload", caseID, map[string]interface{}{"got": digest(w.buf), "want": digest(data), "multipart": true})
	}
	var b bytes.Buffer
	if err := c.Download("ns", name, &b); err == nil && !bytes.Equal(b.Bytes(), data) {
		run.Violation("s3/download/bytes-differ-from-last-upload", caseID, map[string]interface{}{"got": digest(b.Bytes()), "want": digest(data), "multipart": true, "dst": "plain writer"})
	} else if err != nil && !errors.Is(err, io.EOF) {
		// the plain-writer path buffers in memory behind BufferGuard (10 MB by default): an 11 MB blob is refused by configuration, not a contract breach
		run.Count("s3_multipart_plain_writer_refused_by_buffer_guard", 1)
	}
	if info, err := c.Stat("ns", name); err != nil || info.Size != int64(len(data)) {
		run.Violation("s3/stat/size-differs-from-last-upload", caseID, map[string]interface{}{"err": fmt.Sprint(err), "want": len(data)})
	}
	run.Count("s3_multipart_uploads", int64(mp))
	run.Case(caseID, mp > 0)
}
