package c37

import (
	"bytes"
	"encoding/base64"
	"fmt"
	"hash/fnv"
	"io"
	"io/ioutil"
	"net/http"
	"sort"
	"strconv"
	"strings"
	"sync"

	"github.com/aws/aws-sdk-go/aws"
	"github.com/aws/aws-sdk-go/aws/awserr"
	"github.com/aws/aws-sdk-go/aws/credentials"
	"github.com/aws/aws-sdk-go/aws/request"
	"github.com/aws/aws-sdk-go/aws/session"
	"github.com/aws/aws-sdk-go/service/s3"
	"github.com/aws/aws-sdk-go/service/s3/s3iface"
	"github.com/aws/aws-sdk-go/service/s3/s3manager"
)

// memS3 is an in-memory S3 that remembers uploads. It sits UNDER the real AWS
// SDK: a real *s3.S3 client whose network "Send" step is replaced by a handler
// that serves the operation from memory. Everything above that step is the
// real SDK code kraken uses in production: s3manager.Downloader (concurrent
// ranged GetObject into an io.WriterAt), s3manager.Uploader (PutObject or
// multipart), and the SDK's own ListObjectsV2Pages paginator driving kraken's
// page callback.
//
// Behaviour modelled after the S3 API reference:
//   - keys are listed in UTF-8 binary order, at most MaxKeys per page (a page
//     MAY hold fewer: "shortPages" makes every other page one key short),
//     IsTruncated / NextContinuationToken set iff keys remain, Prefix is a plain
//     string prefix;
//   - GetObject honours "bytes=a-b" ranges (206 + Content-Range), 416
//     InvalidRange beyond the end;
//   - missing keys: GetObject -> 404 NoSuchKey, HeadObject -> 404 NotFound;
//   - object keys are URI-cleaned like the SDK's REST builder does (cleanKey).
//
// Not modelled: a ranged GET of a zero-length object is answered 200 with an
// empty body (real S3 answers 416); versioning, ACLs, delimiters.
type memS3 struct {
	mu         sync.Mutex
	bucket     string
	objects    map[string][]byte
	uploads    map[string]map[int64][]byte // multipart upload id -> part number -> bytes
	uploadKey  map[string]string
	nextUpload int
	shortPages bool

	// counters (read under mu)
	nGet, nPut, nHead, nList, nMultipart int
}

func newMemS3(bucket string, shortPages bool) *memS3 {
	return &memS3{bucket: bucket, objects: map[string][]byte{}, uploads: map[string]map[int64][]byte{},
		uploadKey: map[string]string{}, shortPages: shortPages}
}

// s3join mirrors s3backend's unexported join type: S3 API + the two managers.
type s3join struct {
	s3iface.S3API
	*s3manager.Downloader
	*s3manager.Uploader
}

// client builds the real SDK stack over m.
func (m *memS3) client(downloadPartSize int64, downloadConcurrency int, uploadPartSize int64, uploadConcurrency int) (*s3join, error) {
	sess, err := sharedSession()
	if err != nil {
		return nil, err
	}
	api := s3.New(sess)
	h := &api.Handlers
	h.Build.Clear()
	h.Sign.Clear()
	h.Send.Clear()
	h.ValidateResponse.Clear()
	h.UnmarshalMeta.Clear()
	h.Unmarshal.Clear()
	h.UnmarshalError.Clear()
	h.Retry.Clear()
	h.AfterRetry.Clear()
	h.Send.PushBack(m.serve)
	d := s3manager.NewDownloaderWithClient(api, func(d *s3manager.Downloader) {
		d.PartSize = downloadPartSize
		d.Concurrency = downloadConcurrency
	})
	u := s3manager.NewUploaderWithClient(api, func(u *s3manager.Uploader) {
		u.PartSize = uploadPartSize
		u.Concurrency = uploadConcurrency
	})
	return &s3join{api, d, u}, nil
}

var (
	sessOnce sync.Once
	sess     *session.Session
	sessErr  error
)

// sharedSession: one SDK session for the whole run (creating one reads the
// environment and config files); every history gets its own *s3.S3 client.
func sharedSession() (*session.Session, error) {
	sessOnce.Do(func() {
		sess, sessErr = session.NewSession(aws.NewConfig().
			WithRegion("us-east-1").
			WithCredentials(credentials.NewStaticCredentials("id", "secret", "")).
			WithMaxRetries(0))
	})
	return sess, sessErr
}

func fail(r *request.Request, status int, code, msg string) {
	r.HTTPResponse = &http.Response{StatusCode: status, Status: http.StatusText(status), Header: http.Header{}, Body: ioutil.NopCloser(bytes.NewReader(nil))}
	r.Error = awserr.NewRequestFailure(awserr.New(code, msg, nil), status, "mem-s3")
}

func ok(r *request.Request, status int) {
	r.HTTPResponse = &http.Response{StatusCode: status, Status: http.StatusText(status), Header: http.Header{}, Body: ioutil.NopCloser(bytes.NewReader(nil))}
}

func (m *memS3) checkBucket(r *request.Request, b *string) bool {
	if aws.StringValue(b) != m.bucket {
		fail(r, 404, s3.ErrCodeNoSuchBucket, "no such bucket "+aws.StringValue(b))
		return false
	}
	return true
}

// serve is the Send handler.
func (m *memS3) serve(r *request.Request) {
	m.mu.Lock()
	defer m.mu.Unlock()
	switch in := r.Params.(type) {
	case *s3.HeadObjectInput:
		m.nHead++
		if !m.checkBucket(r, in.Bucket) {
			return
		}
		data, found := m.objects[cleanKey(in.Key)]
		if !found {
			fail(r, 404, "NotFound", "Not Found")
			return
		}
		out := r.Data.(*s3.HeadObjectOutput)
		out.ContentLength = aws.Int64(int64(len(data)))
		ok(r, 200)

	case *s3.GetObjectInput:
		m.nGet++
		if !m.checkBucket(r, in.Bucket) {
			return
		}
		data, found := m.objects[cleanKey(in.Key)]
		if !found {
			fail(r, 404, s3.ErrCodeNoSuchKey, "The specified key does not exist.")
			return
		}
		out := r.Data.(*s3.GetObjectOutput)
		total := int64(len(data))
		if in.Range == nil || total == 0 {
			out.ContentLength = aws.Int64(total)
			out.Body = ioutil.NopCloser(bytes.NewReader(append([]byte(nil), data...)))
			ok(r, 200)
			return
		}
		a, b, perr := parseRange(aws.StringValue(in.Range), total)
		if perr != nil {
			fail(r, 416, "InvalidRange", "The requested range is not satisfiable")
			return
		}
		out.ContentLength = aws.Int64(b - a + 1)
		out.ContentRange = aws.String(fmt.Sprintf("bytes %d-%d/%d", a, b, total))
		out.Body = ioutil.NopCloser(bytes.NewReader(append([]byte(nil), data[a:b+1]...)))
		ok(r, 206)

	case *s3.PutObjectInput:
		m.nPut++
		if !m.checkBucket(r, in.Bucket) {
			return
		}
		var data []byte
		if in.Body != nil {
			if _, err := in.Body.Seek(0, io.SeekStart); err != nil {
				fail(r, 400, "BadRequest", err.Error())
				return
			}
			var err error
			if data, err = ioutil.ReadAll(in.Body); err != nil {
				fail(r, 400, "BadRequest", err.Error())
				return
			}
		}
		m.objects[cleanKey(in.Key)] = data
		ok(r, 200)

	case *s3.CreateMultipartUploadInput:
		m.nMultipart++
		if !m.checkBucket(r, in.Bucket) {
			return
		}
		m.nextUpload++
		id := fmt.Sprintf("upload-%d", m.nextUpload)
		m.uploads[id] = map[int64][]byte{}
		m.uploadKey[id] = cleanKey(in.Key)
		out := r.Data.(*s3.CreateMultipartUploadOutput)
		out.UploadId = aws.String(id)
		out.Bucket, out.Key = in.Bucket, in.Key
		ok(r, 200)

	case *s3.UploadPartInput:
		parts, found := m.uploads[aws.StringValue(in.UploadId)]
		if !found {
			fail(r, 404, s3.ErrCodeNoSuchUpload, "no such upload")
			return
		}
		if _, err := in.Body.Seek(0, io.SeekStart); err != nil {
			fail(r, 400, "BadRequest", err.Error())
			return
		}
		data, err := ioutil.ReadAll(in.Body)
		if err != nil {
			fail(r, 400, "BadRequest", err.Error())
			return
		}
		n := aws.Int64Value(in.PartNumber)
		parts[n] = data
		out := r.Data.(*s3.UploadPartOutput)
		out.ETag = aws.String(fmt.Sprintf("\"etag-%d\"", n))
		ok(r, 200)

	case *s3.CompleteMultipartUploadInput:
		id := aws.StringValue(in.UploadId)
		parts, found := m.uploads[id]
		if !found {
			fail(r, 404, s3.ErrCodeNoSuchUpload, "no such upload")
			return
		}
		var data []byte
		if in.MultipartUpload != nil {
			last := int64(0)
			for _, p := range in.MultipartUpload.Parts {
				n := aws.Int64Value(p.PartNumber)
				if n <= last {
					fail(r, 400, "InvalidPartOrder", "parts not in ascending order")
					return
				}
				last = n
				b, okp := parts[n]
				if !okp {
					fail(r, 400, "InvalidPart", "unknown part")
					return
				}
				data = append(data, b...)
			}
		}
		m.objects[m.uploadKey[id]] = data
		delete(m.uploads, id)
		delete(m.uploadKey, id)
		out := r.Data.(*s3.CompleteMultipartUploadOutput)
		out.Bucket, out.Key = in.Bucket, in.Key
		out.Location = aws.String("mem://" + m.bucket + "/" + aws.StringValue(in.Key))
		ok(r, 200)

	case *s3.AbortMultipartUploadInput:
		delete(m.uploads, aws.StringValue(in.UploadId))
		delete(m.uploadKey, aws.StringValue(in.UploadId))
		ok(r, 204)

	case *s3.ListObjectsV2Input:
		m.nList++
		if !m.checkBucket(r, in.Bucket) {
			return
		}
		prefix := aws.StringValue(in.Prefix)
		var keys []string
		for k := range m.objects {
			if strings.HasPrefix(k, prefix) {
				keys = append(keys, k)
			}
		}
		sort.Strings(keys) // byte order == UTF-8 binary order
		after := ""
		if in.ContinuationToken != nil {
			raw, err := base64.StdEncoding.DecodeString(strings.TrimPrefix(*in.ContinuationToken, "tok-"))
			if err != nil || !strings.HasPrefix(*in.ContinuationToken, "tok-") {
				fail(r, 400, "InvalidArgument", "The continuation token provided is incorrect")
				return
			}
			after = string(raw)
		} else if in.StartAfter != nil {
			after = *in.StartAfter
		}
		i := sort.SearchStrings(keys, after)
		if after != "" {
			for i < len(keys) && keys[i] <= after {
				i++
			}
		}
		keys = keys[i:]
		max := int64(1000)
		if in.MaxKeys != nil {
			max = *in.MaxKeys
		}
		if max > 1000 {
			max = 1000
		}
		if max < 0 {
			fail(r, 400, "InvalidArgument", "negative max-keys")
			return
		}
		page := max
		if m.shortPages && page > 1 {
			// S3 may return fewer keys than MaxKeys; decide per (prefix, position) so that a replay sees the same pages
			hh := fnv.New32a()
			hh.Write([]byte(prefix + "\x00" + after))
			if hh.Sum32()%2 == 0 {
				page--
			}
		}
		out := r.Data.(*s3.ListObjectsV2Output)
		out.Name, out.Prefix, out.MaxKeys = in.Bucket, in.Prefix, aws.Int64(max)
		n := int64(len(keys))
		if n > page {
			n = page
		}
		for _, k := range keys[:n] {
			out.Contents = append(out.Contents, &s3.Object{Key: aws.String(k), Size: aws.Int64(int64(len(m.objects[k])))})
		}
		out.KeyCount = aws.Int64(n)
		out.IsTruncated = aws.Bool(n < int64(len(keys)))
		if n < int64(len(keys)) {
			if n == 0 {
				// max-keys=0: S3 returns an empty, non-truncated listing
				out.IsTruncated = aws.Bool(false)
			} else {
				out.NextContinuationToken = aws.String("tok-" + base64.StdEncoding.EncodeToString([]byte(keys[n-1])))
			}
		}
		ok(r, 200)

	default:
		fail(r, 501, "NotImplemented", fmt.Sprintf("mem-s3: operation %s not implemented", r.Operation.Name))
	}
}

// cleanKey applies what the SDK's REST builder does to the key on its way into
// the request URI (the Build step is bypassed here): unless
// DisableRestProtocolURICleaning is set, "//" is collapsed to "/", so the
// leading slash of kraken's absolute blob paths ("/root/...") disappears and
// the object is stored under "root/...". Prefix and continuation token travel
// as query parameters and are not cleaned (which is why s3backend.List strips
// the leading slash itself).
func cleanKey(k *string) string {
	s := aws.StringValue(k)
	for strings.Contains(s, "//") {
		s = strings.ReplaceAll(s, "//", "/")
	}
	return strings.TrimPrefix(s, "/")
}

func parseRange(s string, total int64) (int64, int64, error) {
	s = strings.TrimPrefix(s, "bytes=")
	i := strings.Index(s, "-")
	if i < 0 {
		return 0, 0, fmt.Errorf("bad range")
	}
	a, err := strconv.ParseInt(s[:i], 10, 64)
	if err != nil {
		return 0, 0, err
	}
	b := total - 1
	if s[i+1:] != "" {
		if b, err = strconv.ParseInt(s[i+1:], 10, 64); err != nil {
			return 0, 0, err
		}
	}
	if a >= total || a > b {
		return 0, 0, fmt.Errorf("unsatisfiable")
	}
	if b >= total {
		b = total - 1
	}
	return a, b, nil
}

// put stores an object directly (foreign keys that are already in the bucket).
func (m *memS3) put(key string, data []byte) {
	m.mu.Lock()
	m.objects[key] = data
	m.mu.Unlock()
}
