// C38: registry path parsing recovers exactly the components it was built from.
//
// Oracle-gen monitor: every registry storage layout is built from generated
// valid components, the real ParsePath / Get* extractors are run on it and must
// return the kind and the components; mutated paths must be rejected.
package c38

import (
	"fmt"
	"math/rand"
	"strings"
	"testing"

	"github.com/uber/kraken/lib/dockerregistry"

	"verif/harness/internal/ev"
	"verif/harness/internal/gen"
)

const root = "/docker/registry/v2"

type built struct {
	layout  string
	path    string
	kind    string // expected PathType
	sub     string // expected PathSubType
	repo    string
	tag     string
	current bool
	digest  string // hex
	uuid    string
	algo    string
	offset  string
}

func uuid(r *rand.Rand) string {
	h := gen.Hex(r, 32)
	return h[:8] + "-" + h[8:12] + "-" + h[12:16] + "-" + h[16:20] + "-" + h[20:]
}

func repoName(r *rand.Rand) string {
	for {
		s := gen.DockerRepo(r)
		if len(s) <= 64 {
			return s
		}
	}
}

var layouts = []string{"manifest-revision-link", "tag-current-link", "tag-index-link", "tags-dir", "revisions-dir", "layer-link", "layer-data",
	"upload-data", "upload-startedat", "upload-hashstate", "upload-hashstate-dir", "blob-data"}

func build(r *rand.Rand, layout string) built {
	b := built{layout: layout, repo: repoName(r), tag: gen.DockerTag(r), digest: gen.Hex(r, 64), uuid: uuid(r)}
	rp := root + "/repositories/" + b.repo
	switch layout {
	case "manifest-revision-link":
		b.path, b.kind, b.sub = rp+"/_manifests/revisions/sha256/"+b.digest+"/link", "_manifests", "revisions"
	case "tag-current-link":
		b.path, b.kind, b.sub, b.current = rp+"/_manifests/tags/"+b.tag+"/current/link", "_manifests", "tags", true
	case "tag-index-link":
		b.path, b.kind, b.sub = rp+"/_manifests/tags/"+b.tag+"/index/sha256/"+b.digest+"/link", "_manifests", "tags"
	case "tags-dir":
		b.path, b.kind, b.sub = rp+"/_manifests/tags", "_manifests", "tags"
	case "revisions-dir":
		b.path, b.kind, b.sub = rp+"/_manifests/revisions", "_manifests", "revisions"
	case "layer-link":
		b.path, b.kind, b.sub = rp+"/_layers/sha256/"+b.digest+"/link", "_layers", "link"
	case "layer-data":
		b.path, b.kind, b.sub = rp+"/_layers/sha256/"+b.digest+"/data", "_layers", "data"
	case "upload-data":
		b.path, b.kind, b.sub = rp+"/_uploads/"+b.uuid+"/data", "_uploads", "data"
	case "upload-startedat":
		b.path, b.kind, b.sub = rp+"/_uploads/"+b.uuid+"/startedat", "_uploads", "startedat"
	case "upload-hashstate":
		b.algo = []string{"sha256", "sha512", "md5"}[r.Intn(3)]
		b.offset = fmt.Sprint(r.Int63n(1 << uint(1+r.Intn(40))))
		b.path, b.kind, b.sub = rp+"/_uploads/"+b.uuid+"/hashstates/"+b.algo+"/"+b.offset, "_uploads", "hashstates"
	case "upload-hashstate-dir":
		b.algo = []string{"sha256", "sha512"}[r.Intn(2)]
		b.path, b.kind, b.sub = rp+"/_uploads/"+b.uuid+"/hashstates/"+b.algo, "_uploads", "hashstates"
	case "blob-data":
		b.path, b.kind, b.sub = root+"/blobs/sha256/"+b.digest[:2]+"/"+b.digest+"/data", "blobs", "data"
		b.repo = ""
	}
	return b
}

// component classes that decide the signature of a mismatch
func classOf(b built) string {
	var c []string
	for _, comp := range strings.Split(b.repo, "/") {
		switch comp {
		case "repositories", "blobs", "uploads", "data", "link", "tags", "current", "sha256", "layers", "manifests", "revisions", "index", "v2", "docker", "registry":
			c = append(c, "repo-component-is-layout-word")
		}
	}
	if strings.HasPrefix(b.tag, "_") && (b.layout == "tag-current-link" || b.layout == "tag-index-link") {
		switch b.tag {
		case "_uploads", "_manifests", "_layers":
			c = append(c, "tag-is-marker-word")
		}
	}
	if len(c) == 0 {
		return "plain"
	}
	return c[0]
}

func checkPositive(run *ev.Run, b built) {
	id := b.layout + "|" + b.path
	w := map[string]interface{}{"built": fmt.Sprintf("%+v", b)}
	cls := classOf(b)
	pt, st, err := dockerregistry.ParsePath(b.path)
	if err != nil {
		run.Violation("parsepath-rejects-valid/"+b.layout+"/"+cls, id, w)
		return
	}
	if string(pt) != b.kind || string(st) != b.sub {
		w["got"] = fmt.Sprintf("%s/%s", pt, st)
		run.Violation("parsepath-wrong-kind/"+b.layout+"/"+cls, id, w)
	}
	if b.repo != "" {
		got, err := dockerregistry.GetRepo(b.path)
		if err != nil || got != b.repo {
			w["got"] = fmt.Sprint(got, err)
			run.Violation("getrepo-mismatch/"+b.layout+"/"+cls, id, w)
		}
	}
	chkDigest := func(name string, f func(string) (interface{ Hex() string }, error)) {
		d, err := f(b.path)
		if err != nil || d.Hex() != b.digest {
			w["got"] = fmt.Sprint(d, err)
			run.Violation(name+"-mismatch/"+b.layout+"/"+cls, id, w)
		}
	}
	switch b.layout {
	case "manifest-revision-link", "tag-index-link":
		chkDigest("getmanifestdigest", func(p string) (interface{ Hex() string }, error) { return dockerregistry.GetManifestDigest(p) })
	case "layer-link", "layer-data":
		chkDigest("getlayerdigest", func(p string) (interface{ Hex() string }, error) { return dockerregistry.GetLayerDigest(p) })
	case "blob-data":
		chkDigest("getblobdigest", func(p string) (interface{ Hex() string }, error) { return dockerregistry.GetBlobDigest(p) })
	}
	if b.layout == "tag-current-link" || b.layout == "tag-index-link" {
		tag, cur, err := dockerregistry.GetManifestTag(b.path)
		if err != nil || tag != b.tag || cur != b.current {
			w["got"] = fmt.Sprint(tag, cur, err)
			run.Violation("getmanifesttag-mismatch/"+b.layout+"/"+cls, id, w)
		}
	}
	if b.kind == "_uploads" {
		u, err := dockerregistry.GetUploadUUID(b.path)
		if err != nil || u != b.uuid {
			w["got"] = fmt.Sprint(u, err)
			run.Violation("getuploaduuid-mismatch/"+b.layout+"/"+cls, id, w)
		}
	}
	if b.layout == "upload-hashstate" {
		a, o, err := dockerregistry.GetUploadAlgoAndOffset(b.path)
		if err != nil || a != b.algo || o != b.offset {
			w["got"] = fmt.Sprint(a, o, err)
			run.Violation("getuploadalgooffset-mismatch/"+cls, id, w)
		}
	}
}

// rejected: classification fails, or the extractor(s) for the classified kind fail.
func rejected(path string) bool {
	pt, st, err := dockerregistry.ParsePath(path)
	if err != nil {
		return true
	}
	switch string(pt) {
	case "blobs":
		_, err := dockerregistry.GetBlobDigest(path)
		return err != nil
	case "_layers":
		_, err := dockerregistry.GetLayerDigest(path)
		_, err2 := dockerregistry.GetRepo(path)
		return err != nil || err2 != nil
	case "_uploads":
		_, err := dockerregistry.GetUploadUUID(path)
		_, err2 := dockerregistry.GetRepo(path)
		return err != nil || err2 != nil
	case "_manifests":
		if _, err := dockerregistry.GetRepo(path); err != nil {
			return true
		}
		if strings.HasSuffix(path, "/_manifests/tags") || strings.HasSuffix(path, "/_manifests/revisions") {
			return false
		}
		if string(st) == "revisions" {
			_, err := dockerregistry.GetManifestDigest(path)
			return err != nil
		}
		_, cur, err := dockerregistry.GetManifestTag(path)
		if err != nil {
			return true
		}
		if !cur { // index link: the digest extractor belongs to this kind too
			_, err := dockerregistry.GetManifestDigest(path)
			return err != nil
		}
		return false
	}
	return false
}

var extractors = map[string]func(string) bool{
	"GetBlobDigest":     func(p string) bool { _, err := dockerregistry.GetBlobDigest(p); return err == nil },
	"GetLayerDigest":    func(p string) bool { _, err := dockerregistry.GetLayerDigest(p); return err == nil },
	"GetManifestDigest": func(p string) bool { _, err := dockerregistry.GetManifestDigest(p); return err == nil },
	"GetManifestTag":    func(p string) bool { _, _, err := dockerregistry.GetManifestTag(p); return err == nil },
	"GetUploadUUID":     func(p string) bool { _, err := dockerregistry.GetUploadUUID(p); return err == nil },
	"GetUploadAlgoAndOffset": func(p string) bool {
		_, _, err := dockerregistry.GetUploadAlgoAndOffset(p)
		return err == nil
	},
}

type mutation struct {
	name string
	f    func(r *rand.Rand, b built) (string, bool)
}

func replaceLast(s, old, new string) string {
	i := strings.LastIndex(s, old)
	if i < 0 {
		return s
	}
	return s[:i] + new + s[i+len(old):]
}

var mutations = []mutation{
	{"drop-final-segment", func(r *rand.Rand, b built) (string, bool) {
		switch b.layout {
		case "tags-dir", "revisions-dir", "upload-hashstate":
			return "", false // shorter form is itself a layout path
		}
		return b.path[:strings.LastIndex(b.path, "/")], true
	}},
	{"rename-final-segment", func(r *rand.Rand, b built) (string, bool) {
		switch b.layout {
		case "upload-hashstate", "upload-hashstate-dir":
			return b.path[:strings.LastIndex(b.path, "/")] + "/not-a_number", true
		case "layer-link", "layer-data":
			return b.path[:strings.LastIndex(b.path, "/")] + "/lnk", true
		}
		return b.path[:strings.LastIndex(b.path, "/")] + "/junk", true
	}},
	{"append-junk-segment", func(r *rand.Rand, b built) (string, bool) {
		switch b.layout {
		case "upload-hashstate-dir":
			return b.path + "/12x", true
		case "tags-dir", "revisions-dir":
			return b.path + "/x", true // neither the bare dir nor a .../link path
		}
		return b.path + "/x", true
	}},
	{"rename-marker", func(r *rand.Rand, b built) (string, bool) {
		for _, m := range []string{"/_manifests/", "/_layers/", "/_uploads/", "/blobs/"} {
			if strings.Contains(b.path, m) && !strings.Contains(b.tag, strings.Trim(m, "/")) {
				return replaceLast(b.path, m, "/_other/"), true
			}
		}
		return "", false
	}},
	{"digest-wrong-length", func(r *rand.Rand, b built) (string, bool) {
		if !strings.Contains(b.path, "/"+b.digest+"/") {
			return "", false
		}
		nd := b.digest[:63]
		if r.Intn(2) == 0 {
			nd = b.digest + "a"
		}
		return strings.Replace(b.path, "/"+b.digest+"/", "/"+nd+"/", 1), true
	}},
	{"digest-non-hex", func(r *rand.Rand, b built) (string, bool) {
		if !strings.Contains(b.path, "/"+b.digest+"/") {
			return "", false
		}
		i := 2 + r.Intn(62)
		nd := b.digest[:i] + string("gzGZ-"[r.Intn(5)]) + b.digest[i+1:]
		return strings.Replace(b.path, "/"+b.digest+"/", "/"+nd+"/", 1), true
	}},
	{"algo-not-sha256", func(r *rand.Rand, b built) (string, bool) {
		if b.kind == "_uploads" || !strings.Contains(b.path, "/sha256/"+b.digest[:2]) {
			return "", false
		}
		return strings.Replace(b.path, "/sha256/"+b.digest[:2], "/"+[]string{"sha512", "md5", "sha25"}[r.Intn(3)]+"/"+b.digest[:2], 1), true
	}},
	{"hashstate-offset-non-numeric", func(r *rand.Rand, b built) (string, bool) {
		if b.layout != "upload-hashstate" {
			return "", false
		}
		return b.path[:strings.LastIndex(b.path, "/")] + "/" + b.offset + "x", true
	}},
	{"empty-uuid", func(r *rand.Rand, b built) (string, bool) {
		if b.kind != "_uploads" {
			return "", false
		}
		return strings.Replace(b.path, "/"+b.uuid+"/", "//", 1), true
	}},
}

func TestC38(t *testing.T) {
	run := ev.Start(t, "C38", "exploration",
		"Every registry layout (12) built from PRNG valid repositories (Docker grammar, <=64 chars, nested, incl. layout words as components), "+
			"tags ([\\w][\\w.-]*, incl. _uploads/_manifests/_layers/current/link), 64-hex digests, uuids, algorithms, offsets; plus 9 mutation classes that must be rejected. "+
			"distinct = distinct built or mutated path; non-trivial = every positive case and every applicable mutation")
	defer run.Finish()
	r := run.Rand("main")
	n := run.N(60000, 3000000)
	for i := 0; i < n; i++ {
		b := build(r, layouts[i%len(layouts)])
		if rc := run.ReplayCase(); rc != "" && rc != b.layout+"|"+b.path {
			continue
		}
		run.Case("pos|"+b.path, true)
		run.Count("layout_"+b.layout, 1)
		run.Count("class_"+classOf(b), 1)
		if run.WantSample() && i%7919 == 0 {
			run.Sample(map[string]string{"layout": b.layout, "path": b.path})
		}
		checkPositive(run, b)
		m := mutations[r.Intn(len(mutations))]
		if classOf(b) != "plain" {
			continue // mutate only paths whose components cannot be confused with layout words
		}
		mp, ok := m.f(r, b)
		if !ok {
			continue
		}
		run.Case("neg|"+mp, true)
		run.Count("mutation_"+m.name, 1)
		// Each extractor that accepted the original must itself refuse a path whose
		// tail no longer follows the layout (GetRepo only reads the prefix and is exempt).
		switch m.name {
		case "drop-final-segment", "rename-final-segment", "append-junk-segment", "hashstate-offset-non-numeric":
			for name, f := range extractors {
				if f(b.path) && f(mp) {
					run.Violation("extractor-accepts-mutated-tail/"+name+"/"+m.name+"/"+b.layout, "neg|"+mp,
						map[string]string{"original": b.path, "mutated": mp})
				}
			}
		}
		if !rejected(mp) {
			pt, st, _ := dockerregistry.ParsePath(mp)
			run.Violation("mutated-path-accepted/"+m.name+"/"+b.layout, "neg|"+mp,
				map[string]string{"original": b.path, "mutated": mp, "classified": string(pt) + "/" + string(st)})
		}
	}
}
