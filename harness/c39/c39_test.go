// C39: identifiers and metadata serialize and parse losslessly.
//
// Oracle-gen monitor: round trips through the real printers/parsers/serializers
// for every identifier and sidecar type, a reference recogniser for the textual
// forms on generated malformed strings, random bytes into every Deserialize
// (must not panic; accepted values must re-serialize to something that parses to
// the same value), and handshake bitfields sent over real TCP through the real
// Handshaker framing.
package c39

import (
	"bytes"
	"encoding/hex"
	"encoding/json"
	"fmt"
	"math/rand"
	"net"
	"strings"
	"testing"
	"time"

	"github.com/andres-erbsen/clock"
	"github.com/uber-go/tally"
	"github.com/willf/bitset"
	"go.uber.org/zap"

	"github.com/uber/kraken/core"
	"github.com/uber/kraken/lib/store/metadata"
	"github.com/uber/kraken/lib/torrent/networkevent"
	"github.com/uber/kraken/lib/torrent/scheduler/conn"
	"github.com/uber/kraken/lib/torrent/storage"
	_ "github.com/uber/kraken/lib/torrent/storage/agentstorage" // registers the _status sidecar

	"verif/harness/internal/ev"
	"verif/harness/internal/gen"
)

func isHex(s string) bool {
	for _, c := range s {
		if !(c >= '0' && c <= '9' || c >= 'a' && c <= 'f' || c >= 'A' && c <= 'F') {
			return false
		}
	}
	return true
}

// reference recognisers (independent of the code under test)
func validHexN(s string, n int) bool { return len(s) == n && isHex(s) }
func validDigest(s string) bool {
	return strings.HasPrefix(s, "sha256:") && validHexN(s[len("sha256:"):], 64)
}

var junk = []string{"", " ", ":", "::", "sha256", "sha256:", "sha1:", "SHA256:", "sha256 :", "\n", "\x00", "é", "０", "g", "Z", "-", "0x"}

// malformed derives a probably-malformed string from a well-formed one.
func malformed(r *rand.Rand, good string) string {
	b := []byte(good)
	switch r.Intn(14) {
	case 0:
		return good[:r.Intn(len(good))] // truncated (maybe empty)
	case 1:
		return good + string("0123456789abcdefg:"[r.Intn(18)])
	case 2:
		i := r.Intn(len(b))
		b[i] = "gzGZ:-_ /\x00\n"[r.Intn(11)]
		return string(b)
	case 3:
		return " " + good
	case 4:
		return good + " "
	case 5:
		return strings.Replace(good, "sha256:", junk[r.Intn(len(junk))], 1)
	case 6:
		return good + ":" + gen.Hex(r, r.Intn(5))
	case 7:
		return junk[r.Intn(len(junk))]
	case 8:
		i := r.Intn(len(good))
		return good[:i] + "é" + good[i:]
	case 9:
		return strings.ToUpper(good)
	case 10:
		i := r.Intn(len(good))
		return good[:i] + good[i+1:] // one char dropped
	case 11:
		return "sha256:" + good
	case 12:
		return strings.Repeat(good, 2)
	default:
		i := r.Intn(len(b))
		b[i] = byte(r.Intn(256))
		return string(b)
	}
}

type events struct{}

func (events) ConnClosed(*conn.Conn) {}

func randBitset(r *rand.Rand, n int) *bitset.BitSet {
	b := bitset.New(uint(n))
	for i := 0; i < n; i++ {
		if r.Intn(2) == 0 {
			b.Set(uint(i))
		}
	}
	return b
}

func TestC39(t *testing.T) {
	run := ev.Start(t, "C39", "exploration",
		"PRNG values of every identifier/sidecar type round-tripped through the real printers, parsers and (de)serializers; "+
			"14 malformation operators on well-formed digests/info hashes/peer ids judged by a reference recogniser; random byte slices into every Deserialize; "+
			"handshakes (bitfield + remote bitfield maps) over real TCP through the real Handshaker. distinct = distinct (type, value/string)")
	defer run.Finish()
	r := run.Rand("main")
	n := run.N(30000, 3000000)

	// ---- positive round trips -------------------------------------------------
	for i := 0; i < n; i++ {
		hx := gen.Hex(r, 64)
		if i%5 == 0 {
			hx = strings.ToUpper(hx) // upper-case hexadecimal characters are hexadecimal characters
		}
		raw := "sha256:" + hx
		run.Case("digest|"+raw, true)
		d, err := core.ParseSHA256Digest(raw)
		if err != nil {
			run.Violation("digest/parse-rejects-valid", raw, err.Error())
			continue
		}
		if d.String() != raw || d.Hex() != hx || d.Algo() != "sha256" {
			run.Violation("digest/print-parse-mismatch", raw, fmt.Sprint(d.String(), d.Hex(), d.Algo()))
		}
		d2, err := core.NewSHA256DigestFromHex(hx)
		if err != nil || d2 != d {
			run.Violation("digest/from-hex-mismatch", raw, fmt.Sprint(d2, err))
		}
		if d.ShardID() != hx[:4] {
			run.Violation("digest/shard-id", raw, d.ShardID())
		}
		jb, err := json.Marshal(d)
		var d3 core.Digest
		if err != nil || json.Unmarshal(jb, &d3) != nil || d3 != d {
			run.Violation("digest/json-roundtrip", raw, string(jb))
		}
		v, err := d.Value()
		var d4 core.Digest
		if err != nil || d4.Scan(v) != nil || d4 != d {
			run.Violation("digest/value-scan-roundtrip", raw, fmt.Sprint(v))
		}
		if i%4 == 0 {
			// digest lists
			k := r.Intn(6)
			l := core.DigestList{}
			for j := 0; j < k; j++ {
				dd, _ := core.NewSHA256DigestFromHex(gen.Hex(r, 64))
				l = append(l, dd)
			}
			run.Case("digestlist|"+ev.JSON(l), k > 0)
			lv, err := l.Value()
			var l2 core.DigestList
			if err != nil || l2.Scan(lv) != nil || len(l2) != len(l) {
				run.Violation("digestlist/value-scan-roundtrip", ev.JSON(l), fmt.Sprint(lv))
			} else {
				for j := range l {
					if l[j] != l2[j] {
						run.Violation("digestlist/element-mismatch", ev.JSON(l), j)
					}
				}
			}
			run.Count("digest_lists", 1)
		}
		// info hash
		var ih core.InfoHash
		r.Read(ih[:])
		run.Case("infohash|"+ih.Hex(), true)
		ih2, err := core.NewInfoHashFromHex(ih.Hex())
		if err != nil || ih2 != ih || ih.String() != ih.Hex() || !bytes.Equal(ih.Bytes(), ih[:]) || ih.Hex() != hex.EncodeToString(ih[:]) {
			run.Violation("infohash/hex-roundtrip", ih.Hex(), fmt.Sprint(ih2, err))
		}
		// peer id
		var pid core.PeerID
		r.Read(pid[:])
		run.Case("peerid|"+pid.String(), true)
		pid2, err := core.NewPeerID(pid.String())
		if err != nil || pid2 != pid || pid.String() != hex.EncodeToString(pid[:]) {
			run.Violation("peerid/string-roundtrip", pid.String(), fmt.Sprint(pid2, err))
		}
		// access time, second granularity, years 0001..9999
		var unix int64
		switch r.Intn(4) {
		case 0:
			unix = -62135596800 + r.Int63n(253402300799+62135596800+1)
		case 1:
			unix = []int64{-62135596800, 253402300799, 0, -1, 1, 1 << 31, 1<<31 - 1, 1 << 32, 1<<35 - 1, 1 << 35}[r.Intn(10)]
		default:
			unix = 1500000000 + r.Int63n(1000000000)
		}
		run.Case(fmt.Sprintf("lat|%d", unix), true)
		lat := metadata.NewLastAccessTime(time.Unix(unix, int64(r.Intn(1000000000))))
		lb, err := lat.Serialize()
		lat2 := metadata.CreateFromSuffix(lat.GetSuffix())
		if err != nil || lat2 == nil || lat2.Deserialize(lb) != nil || lat2.(*metadata.LastAccessTime).Time.Unix() != unix {
			run.Violation("lastaccesstime/roundtrip", fmt.Sprint(unix), hex.EncodeToString(lb))
		}
		// persist flag
		pv := i%2 == 0
		pm := metadata.NewPersist(pv)
		pb, err := pm.Serialize()
		pm2 := metadata.CreateFromSuffix(pm.GetSuffix())
		if err != nil || pm2 == nil || pm2.Deserialize(pb) != nil || pm2.(*metadata.Persist).Value != pv {
			run.Violation("persist/roundtrip", fmt.Sprint(pv), string(pb))
		}
		run.Case(fmt.Sprintf("persist|%v", pv), true)
		// piece status vectors over the persisted alphabet {empty=0, complete=1}
		if i%3 == 0 {
			k := r.Intn(200)
			vec := make([]byte, k)
			for j := range vec {
				vec[j] = byte(r.Intn(2))
			}
			run.Case("status|"+hex.EncodeToString(vec), k > 0)
			sm := metadata.CreateFromSuffix("_status")
			if sm == nil {
				t.Fatalf("_status sidecar type not registered")
			}
			if err := sm.Deserialize(vec); err != nil {
				run.Violation("piecestatus/deserialize-error", hex.EncodeToString(vec), err.Error())
			} else if out, err := sm.Serialize(); err != nil || !bytes.Equal(out, vec) {
				run.Violation("piecestatus/roundtrip", hex.EncodeToString(vec), hex.EncodeToString(out))
			}
			run.Count("piece_status_vectors", 1)
		}
		if run.WantSample() && i%9973 == 0 {
			run.Sample(map[string]interface{}{"digest": raw, "infohash": ih.Hex(), "peerid": pid.String(), "access_unix": unix})
		}
	}

	// ---- malformed strings -----------------------------------------------------
	nm := run.N(40000, 3000000)
	for i := 0; i < nm; i++ {
		goodD := "sha256:" + gen.Hex(r, 64)
		s := malformed(r, goodD)
		run.Case("mal-digest|"+s, true)
		_, err := core.ParseSHA256Digest(s)
		if (err == nil) != validDigest(s) {
			run.Violation(fmt.Sprintf("digest/parse-accepts=%v-reference=%v", err == nil, validDigest(s)), s, fmt.Sprintf("%q", s))
		}
		var dj core.Digest
		jb, _ := json.Marshal(s)
		if (json.Unmarshal(jb, &dj) == nil) != validDigest(s) {
			run.Violation("digest/json-accepts-disagrees-with-reference", s, fmt.Sprintf("%q", s))
		}
		hs := malformed(r, gen.Hex(r, 64))
		run.Case("mal-hex64|"+hs, true)
		_, err = core.NewSHA256DigestFromHex(hs)
		if (err == nil) != validHexN(hs, 64) {
			run.Violation(fmt.Sprintf("digest/from-hex-accepts=%v-reference=%v", err == nil, validHexN(hs, 64)), hs, fmt.Sprintf("%q", hs))
		}
		if (core.ValidateSHA256(hs) == nil) != validHexN(hs, 64) {
			run.Violation("digest/validate-disagrees-with-reference", hs, fmt.Sprintf("%q", hs))
		}
		is := malformed(r, gen.Hex(r, 40))
		run.Case("mal-hex40|"+is, true)
		_, err = core.NewInfoHashFromHex(is)
		if (err == nil) != validHexN(is, 40) {
			run.Violation(fmt.Sprintf("infohash/from-hex-accepts=%v-reference=%v", err == nil, validHexN(is, 40)), is, fmt.Sprintf("%q", is))
		}
		_, err = core.NewPeerID(is)
		if (err == nil) != validHexN(is, 40) {
			run.Violation(fmt.Sprintf("peerid/parse-accepts=%v-reference=%v", err == nil, validHexN(is, 40)), is, fmt.Sprintf("%q", is))
		}
		if run.WantSample() && i%20011 == 0 {
			run.Sample(map[string]string{"malformed_digest": fmt.Sprintf("%q", s), "malformed_hex64": fmt.Sprintf("%q", hs), "malformed_hex40": fmt.Sprintf("%q", is)})
		}
	}

	// ---- random bytes into every Deserialize -------------------------------------
	nb := run.N(20000, 1500000)
	suffixes := []string{"_last_access_time", "_persist", "_status", "_torrentmeta"}
	for i := 0; i < nb; i++ {
		sfx := suffixes[i%len(suffixes)]
		var b []byte
		switch r.Intn(5) {
		case 0:
			b = gen.Bytes(r, r.Intn(12))
		case 1:
			b = []byte([]string{"true", "false", "1", "0", "t", "F", "TRUE", "yes", "", "null", "{}", `{"Info":{}}`,
				`{"Info":{"PieceLength":-1,"PieceSums":[1],"Name":"zz","Length":5}}`}[r.Intn(13)])
		case 2:
			b = gen.Bytes(r, r.Intn(64))
		case 3:
			// a valid serialization cut short (incl. to nothing), or with continuation bits set to the end
			src := validSerialization(r, sfx)
			if len(src) > 0 {
				src = src[:r.Intn(len(src))]
			}
			if r.Intn(3) == 0 {
				for j := range src {
					src[j] |= 0x80
				}
			}
			b = src
		default:
			// a valid serialization with one byte damaged
			src := validSerialization(r, sfx)
			if len(src) > 0 {
				src[r.Intn(len(src))] = byte(r.Intn(256))
			}
			b = src
		}
		run.Case(sfx+"|"+hex.EncodeToString(b), len(b) > 0)
		run.Count("random_deserialize"+sfx, 1)
		func() {
			defer func() {
				if p := recover(); p != nil {
					run.Violation("deserialize-panics/"+sfx, hex.EncodeToString(b), fmt.Sprint(p))
				}
			}()
			m := metadata.CreateFromSuffix(sfx)
			err := m.Deserialize(b)
			// parsing accepts only well-formed input: independent recognisers for the two small formats
			if want, known := wellFormed(sfx, b); known && (err == nil) != want {
				run.Violation(fmt.Sprintf("deserialize-accepts=%v-but-wellformed=%v/%s", err == nil, want, sfx), hex.EncodeToString(b), fmt.Sprintf("%q", b))
			}
			if err != nil {
				run.Count("random_rejected"+sfx, 1)
				return
			}
			run.Count("random_accepted"+sfx, 1)
			if lt, ok := m.(*metadata.LastAccessTime); ok {
				if y := lt.Time.UTC().Year(); y < 1 || y > 9999 {
					return // outside the stated range of access times
				}
			}
			out, err := m.Serialize()
			if err != nil {
				run.Violation("accepted-value-does-not-serialize/"+sfx, hex.EncodeToString(b), err.Error())
				return
			}
			m2 := metadata.CreateFromSuffix(sfx)
			if err := m2.Deserialize(out); err != nil {
				run.Violation("reserialized-value-rejected/"+sfx, hex.EncodeToString(b), hex.EncodeToString(out))
				return
			}
			out2, _ := m2.Serialize()
			if !bytes.Equal(out, out2) {
				run.Violation("reserialized-value-differs/"+sfx, hex.EncodeToString(b), hex.EncodeToString(out)+" vs "+hex.EncodeToString(out2))
			}
		}()
	}

	// ---- handshakes over real TCP ---------------------------------------------------
	handshakes(t, run, r, run.N(250, 8000))
}

// wellFormed is a reference recogniser, written from the formats' definitions: an access time is one
// complete signed varint at the start of the buffer (at most 10 bytes, the 10th at most 1); a persist flag
// is one of the boolean spellings. known=false for formats without a small independent definition.
func wellFormed(sfx string, b []byte) (ok bool, known bool) {
	switch sfx {
	case "_last_access_time":
		for i := 0; i < len(b) && i < 10; i++ {
			if b[i] < 0x80 {
				return i < 9 || b[i] <= 1, true
			}
		}
		return false, true
	case "_persist":
		switch string(b) {
		case "1", "t", "T", "TRUE", "true", "True", "0", "f", "F", "FALSE", "false", "False":
			return true, true
		}
		return false, true
	}
	return false, false
}

func validSerialization(r *rand.Rand, sfx string) []byte {
	switch sfx {
	case "_last_access_time":
		b, _ := metadata.NewLastAccessTime(time.Unix(r.Int63n(4000000000), 0)).Serialize()
		return b
	case "_persist":
		b, _ := metadata.NewPersist(r.Intn(2) == 0).Serialize()
		return b
	case "_status":
		return gen.Bytes(r, r.Intn(16))
	default:
		data := gen.Bytes(r, r.Intn(300))
		d, _ := core.NewDigester().FromBytes(data)
		mi, _ := core.NewMetaInfoFromBytes(d, data, int64(1+r.Intn(64)))
		b, _ := mi.Serialize()
		return b
	}
}

func newHandshaker(t *testing.T, id core.PeerID) *conn.Handshaker {
	h, err := conn.NewHandshaker(conn.Config{}, tally.NoopScope, clock.New(), networkevent.NewTestProducer(), id, events{}, zap.NewNop().Sugar())
	if err != nil {
		t.Fatalf("handshaker: %v", err)
	}
	return h
}

func handshakes(t *testing.T, run *ev.Run, r *rand.Rand, n int) {
	ln, err := net.Listen("tcp", "127.0.0.1:0")
	if err != nil {
		t.Fatalf("listen: %v", err)
	}
	defer ln.Close()
	for i := 0; i < n; i++ {
		var idA, idB core.PeerID
		r.Read(idA[:])
		r.Read(idB[:])
		pieces := []int{1, 2, 7, 8, 9, 63, 64, 65, 1 + r.Intn(300)}[r.Intn(9)]
		data := gen.Bytes(r, pieces)
		d, _ := core.NewDigester().FromBytes(data)
		mi, err := core.NewMetaInfoFromBytes(d, data, 1)
		if err != nil || mi.NumPieces() != pieces {
			t.Fatalf("metainfo: %v", err)
		}
		bfA, bfB := randBitset(r, pieces), randBitset(r, pieces)
		mkRemote := func() conn.RemoteBitfields {
			rb := conn.RemoteBitfields{}
			for k := r.Intn(4); k > 0; k-- {
				var p core.PeerID
				r.Read(p[:])
				rb[p] = randBitset(r, pieces)
			}
			return rb
		}
		rbA, rbB := mkRemote(), mkRemote()
		ns := []string{"", "ns", "library/a.b-c_d", strings.Repeat("n", 1+r.Intn(100))}[r.Intn(4)]
		caseID := fmt.Sprintf("hs|%d|%s|%s|%d|%d|%s", pieces, bfA.DumpAsBits(), bfB.DumpAsBits(), len(rbA), len(rbB), ns)
		run.Case(caseID, bfA.Any() || len(rbA) > 0)
		run.Count("handshakes", 1)
		hA, hB := newHandshaker(t, idA), newHandshaker(t, idB)
		infoA, infoB := storage.NewTorrentInfo(mi, bfA), storage.NewTorrentInfo(mi, bfB)

		type acc struct {
			pc  *conn.PendingConn
			c   *conn.Conn
			err error
		}
		ch := make(chan acc, 1)
		go func() {
			nc, err := ln.Accept()
			if err != nil {
				ch <- acc{err: err}
				return
			}
			pc, err := hB.Accept(nc)
			if err != nil {
				nc.Close()
				ch <- acc{err: err}
				return
			}
			c, err := hB.Establish(pc, infoB, rbB)
			ch <- acc{pc: pc, c: c, err: err}
		}()
		res, errA := hA.Initialize(idB, false, ln.Addr().String(), infoA, rbA, ns)
		var a acc
		select {
		case a = <-ch:
		case <-time.After(30 * time.Second):
			run.Inconclusive("handshake acceptor did not finish within 30s")
			return
		}
		w := map[string]interface{}{"pieces": pieces, "bitfieldA": bfA.DumpAsBits(), "bitfieldB": bfB.DumpAsBits(), "ns": ns, "errA": fmt.Sprint(errA), "errB": fmt.Sprint(a.err)}
		if errA != nil || a.err != nil {
			run.Violation("handshake/valid-handshake-fails", caseID, w)
		} else {
			pc := a.pc
			if pc.PeerID() != idA || pc.Digest() != d || pc.InfoHash() != mi.InfoHash() || pc.Namespace() != ns {
				run.Violation("handshake/identity-fields-mismatch", caseID, w)
			}
			if !pc.Bitfield().Equal(bfA) {
				w["got"] = pc.Bitfield().DumpAsBits()
				run.Violation("handshake/bitfield-mismatch-opener-to-acceptor", caseID, w)
			}
			if !sameRB(pc.RemoteBitfields(), rbA) {
				run.Violation("handshake/remote-bitfields-mismatch-opener-to-acceptor", caseID, w)
			}
			if !res.Bitfield.Equal(bfB) {
				w["got"] = res.Bitfield.DumpAsBits()
				run.Violation("handshake/bitfield-mismatch-acceptor-to-opener", caseID, w)
			}
			if !sameRB(res.RemoteBitfields, rbB) {
				run.Violation("handshake/remote-bitfields-mismatch-acceptor-to-opener", caseID, w)
			}
		}
		if res != nil && res.Conn != nil {
			res.Conn.Start()
			res.Conn.Close()
		}
		if a.c != nil {
			a.c.Start()
			a.c.Close()
		}
		if i == 0 {
			run.Sample(w)
		}
	}
}

func sameRB(a, b conn.RemoteBitfields) bool {
	if len(a) != len(b) {
		return false
	}
	for k, v := range a {
		o, ok := b[k]
		if !ok || !o.Equal(v) {
			return false
		}
	}
	return true
}
