// Package ev is the verdict/evidence layer shared by every check.
//
// A check is a Go test that calls Start, reports every executed case through
// Case, reports violations through Violation and ends with Finish. Finish
// writes /verif/evidence/<ID>.json (EVIDENCE.schema.json) from what was
// actually counted. Violations are matched against /verif/known_findings.json
// (never written at run time): a violation whose signature is listed as
// "known" prints a KNOWN-FINDING line and does not fail the run; every other
// violation writes a replay witness and prints
// "VIOLATION property=<id> replay=<path>".
package ev

import (
	"crypto/sha256"
	"encoding/hex"
	"encoding/json"
	"fmt"
	"math/rand"
	"os"
	"path/filepath"
	"sort"
	"strconv"
	"strings"
	"sync"
	"testing"
	"time"
)

// Root is the /verif directory.
func Root() string {
	if d := os.Getenv("VERIF_ROOT"); d != "" {
		return d
	}
	return "/verif"
}

// Finding is one entry of known_findings.json.
type Finding struct {
	Property  string `json:"property"`
	Signature string `json:"signature"`
	Status    string `json:"status"` // known | fixed
	Commit    string `json:"commit,omitempty"`
	What      string `json:"what"`
}

// Run collects what one check execution observed.
type Run struct {
	t     testing.TB
	ID    string
	level string
	rule  string
	tier  string
	seed  int64
	start time.Time

	mu          sync.Mutex
	evals       int64
	distinct    map[[16]byte]struct{}
	samples     []interface{}
	maxSamples  int
	extra       map[string]interface{}
	counters    map[string]int64
	sets        map[string]map[string]struct{}
	assumptions []string
	exhaustive  bool
	violations  int
	seenViol    map[string]int
	knownSeen   map[string]int
	known       map[string]Finding
	inconcl     []string
	replay      map[string]interface{}
	finished    bool
}

// Start begins a check run. level is "exploration" or "fault_enumeration".
func Start(t testing.TB, id, level, rule string) *Run {
	r := &Run{
		t: t, ID: id, level: level, rule: rule,
		tier:       os.Getenv("VERIF_TIER"),
		start:      time.Now(),
		distinct:   map[[16]byte]struct{}{},
		maxSamples: 6,
		extra:      map[string]interface{}{},
		counters:   map[string]int64{},
		sets:       map[string]map[string]struct{}{},
		seenViol:   map[string]int{},
		knownSeen:  map[string]int{},
		known:      map[string]Finding{},
	}
	if r.tier != "thorough" {
		r.tier = "quick"
	}
	r.seed = 1
	if s := os.Getenv("VERIF_SEED"); s != "" {
		if v, err := strconv.ParseInt(s, 10, 64); err == nil {
			r.seed = v
		}
	}
	if p := os.Getenv("VERIF_REPLAY"); p != "" {
		b, err := os.ReadFile(p)
		if err != nil {
			t.Fatalf("replay file: %v", err)
		}
		var m map[string]interface{}
		if err := json.Unmarshal(b, &m); err != nil {
			t.Fatalf("replay file: %v", err)
		}
		r.replay = m
		if v, ok := m["seed"].(float64); ok {
			r.seed = int64(v)
		}
		if v, ok := m["tier"].(string); ok && (v == "quick" || v == "thorough") {
			r.tier = v
		}
	}
	files := []string{filepath.Join(Root(), "known_findings.json")}
	more, _ := filepath.Glob(filepath.Join(Root(), "known_findings.d", "*.json"))
	files = append(files, more...)
	for _, fn := range files {
		b, err := os.ReadFile(fn)
		if err != nil {
			continue
		}
		var fs []Finding
		if err := json.Unmarshal(b, &fs); err != nil {
			t.Fatalf("%s: %v", fn, err)
		}
		for _, f := range fs {
			if f.Property == id && f.Status == "known" {
				r.known[f.Signature] = f
			}
		}
	}
	return r
}

// Quick reports whether this is the quick tier.
func (r *Run) Quick() bool { return r.tier == "quick" }

// Tier returns "quick" or "thorough".
func (r *Run) Tier() string { return r.tier }

// Seed returns VERIF_SEED (default 1).
func (r *Run) Seed() int64 { return r.seed }

// N picks the quick or thorough size.
func (r *Run) N(quick, thorough int) int {
	if r.Quick() {
		return quick
	}
	return thorough
}

// Rand returns a PRNG determined by the seed and a stream name.
func (r *Run) Rand(stream string) *rand.Rand {
	h := sha256.Sum256([]byte(fmt.Sprintf("%s/%d/%s", r.ID, r.seed, stream)))
	var s int64
	for i := 0; i < 8; i++ {
		s = s<<8 | int64(h[i])
	}
	return rand.New(rand.NewSource(s))
}

// ReplayCase returns the case id recorded in the replay file, or "".
func (r *Run) ReplayCase() string {
	if r.replay == nil {
		return ""
	}
	s, _ := r.replay["case"].(string)
	return s
}

// Case records one executed case. key canonically identifies the case (the
// generated input / history); nontrivial says whether it satisfies the
// non-triviality rule stated in rule.
func (r *Run) Case(key string, nontrivial bool) {
	r.mu.Lock()
	defer r.mu.Unlock()
	r.evals++
	if nontrivial {
		h := sha256.Sum256([]byte(key))
		var k [16]byte
		copy(k[:], h[:16])
		r.distinct[k] = struct{}{}
	}
}

// Sample stores an example case (the first few are kept).
func (r *Run) Sample(v interface{}) {
	r.mu.Lock()
	defer r.mu.Unlock()
	if len(r.samples) < r.maxSamples {
		r.samples = append(r.samples, v)
	}
}

// WantSample reports whether more samples are wanted.
func (r *Run) WantSample() bool {
	r.mu.Lock()
	defer r.mu.Unlock()
	return len(r.samples) < r.maxSamples
}

// Count adds n to a named monitor counter reported in coverage.observed.
func (r *Run) Count(name string, n int64) {
	r.mu.Lock()
	r.counters[name] += n
	r.mu.Unlock()
}

// Counter returns a counter's value.
func (r *Run) Counter(name string) int64 {
	r.mu.Lock()
	defer r.mu.Unlock()
	return r.counters[name]
}

// Distinct adds a member to a named set whose size is reported in coverage
// (distinct interleavings, distinct states, ...).
func (r *Run) Distinct(set, member string) {
	r.mu.Lock()
	m := r.sets[set]
	if m == nil {
		m = map[string]struct{}{}
		r.sets[set] = m
	}
	if len(m) < 2000000 {
		m[member] = struct{}{}
	}
	r.mu.Unlock()
}

// Set stores an extra coverage key.
func (r *Run) Set(k string, v interface{}) {
	r.mu.Lock()
	r.extra[k] = v
	r.mu.Unlock()
}

// Exhaustive marks the explored space as completely enumerated.
func (r *Run) Exhaustive(b bool) { r.mu.Lock(); r.exhaustive = b; r.mu.Unlock() }

// Assume records an assumption / trusted-base item.
func (r *Run) Assume(s string) {
	r.mu.Lock()
	r.assumptions = append(r.assumptions, s)
	r.mu.Unlock()
}

// Inconclusive records that part of the run could not decide.
func (r *Run) Inconclusive(reason string) {
	r.mu.Lock()
	r.inconcl = append(r.inconcl, reason)
	r.mu.Unlock()
}

// Violation reports a violation. signature names the failing input class /
// call site / history shape (stable across seeds); caseID identifies the case
// for replay; witness is written to the replay file. It returns true when the
// violation is a listed known finding.
func (r *Run) Violation(signature, caseID string, witness interface{}) bool {
	r.mu.Lock()
	defer r.mu.Unlock()
	if f, ok := r.known[signature]; ok {
		r.knownSeen[signature]++
		_ = f
		return true
	}
	r.violations++
	r.seenViol[signature]++
	if r.seenViol[signature] > 3 {
		return false // same signature: keep the first witnesses only
	}
	dir := filepath.Join(Root(), "replays", r.ID)
	_ = os.MkdirAll(dir, 0o755)
	name := fmt.Sprintf("%s-%d.json", sanitize(signature), r.seenViol[signature])
	p := filepath.Join(dir, name)
	b, _ := json.MarshalIndent(map[string]interface{}{
		"property":  r.ID,
		"signature": signature,
		"seed":      r.seed,
		"tier":      r.tier,
		"case":      caseID,
		"witness":   witness,
	}, "", " ")
	_ = os.WriteFile(p, b, 0o644)
	fmt.Printf("VIOLATION property=%s replay=%s\n", r.ID, p)
	fmt.Printf("  signature=%s case=%s\n", signature, caseID)
	return false
}

func sanitize(s string) string {
	var b strings.Builder
	for _, c := range s {
		switch {
		case c >= 'a' && c <= 'z', c >= 'A' && c <= 'Z', c >= '0' && c <= '9', c == '-', c == '_', c == '.':
			b.WriteRune(c)
		default:
			b.WriteByte('_')
		}
	}
	out := b.String()
	if len(out) > 80 {
		h := sha256.Sum256([]byte(s))
		out = out[:60] + "-" + hex.EncodeToString(h[:6])
	}
	return out
}

// Violations returns the number of unlisted violations so far.
func (r *Run) Violations() int {
	r.mu.Lock()
	defer r.mu.Unlock()
	return r.violations
}

// Finish writes the evidence file and fails the test on violations.
func (r *Run) Finish() {
	r.mu.Lock()
	if r.finished {
		r.mu.Unlock()
		return
	}
	r.finished = true
	cov := map[string]interface{}{}
	for k, v := range r.extra {
		cov[k] = v
	}
	cov["evaluations"] = r.evals
	cov["distinct_nontrivial"] = len(r.distinct)
	cov["rule"] = r.rule
	samples := r.samples
	if samples == nil {
		samples = []interface{}{}
	}
	cov["samples"] = samples
	if r.exhaustive {
		cov["exhaustive"] = true
	}
	obs := map[string]interface{}{}
	for k, v := range r.counters {
		obs[k] = v
	}
	for k, v := range r.sets {
		obs["distinct_"+k] = len(v)
	}
	cov["observed"] = obs
	kf := []string{}
	for s, n := range r.knownSeen {
		kf = append(kf, fmt.Sprintf("%s (x%d)", s, n))
	}
	sort.Strings(kf)
	cov["known_findings_encountered"] = kf
	if len(r.inconcl) > 0 {
		cov["inconclusive"] = r.inconcl
	}
	out := map[string]interface{}{
		"property_id": r.ID,
		"tier":        r.tier,
		"seed":        r.seed,
		"level":       r.level,
		"coverage":    cov,
		"assumptions": append([]string{}, r.assumptions...),
		"wall_s":      time.Since(r.start).Seconds(),
		"violations":  r.violations,
	}
	viol := r.violations
	inconcl := append([]string{}, r.inconcl...)
	knownSeen := map[string]int{}
	for k, v := range r.knownSeen {
		knownSeen[k] = v
	}
	evals, nd := r.evals, len(r.distinct)
	r.mu.Unlock()

	if os.Getenv("VERIF_REPLAY") == "" {
		dir := filepath.Join(Root(), "evidence")
		if os.Getenv("VERIF_REPO") != "" && os.Getenv("VERIF_TMP") != "" {
			// development run against a scratch worktree: never overwrite the evidence of /repo
			dir = filepath.Join(os.Getenv("VERIF_TMP"), "evidence")
		}
		_ = os.MkdirAll(dir, 0o755)
		b, _ := json.MarshalIndent(out, "", " ")
		tmp := filepath.Join(dir, "."+r.ID+".json.tmp")
		if err := os.WriteFile(tmp, b, 0o644); err == nil {
			_ = os.Rename(tmp, filepath.Join(dir, r.ID+".json"))
		}
	}
	keys := make([]string, 0, len(knownSeen))
	for s := range knownSeen {
		keys = append(keys, s)
	}
	sort.Strings(keys)
	for _, s := range keys {
		fmt.Printf("KNOWN-FINDING: property=%s %s: %s (seen %d times)\n", r.ID, s, r.known[s].What, knownSeen[s])
	}
	fmt.Printf("SUMMARY property=%s tier=%s seed=%d evaluations=%d distinct_nontrivial=%d violations=%d\n",
		r.ID, r.tier, r.seed, evals, nd, viol)
	for _, s := range inconcl {
		fmt.Printf("INCONCLUSIVE property=%s %s\n", r.ID, s)
	}
	if viol > 0 {
		r.t.Errorf("%s: %d violation(s)", r.ID, viol)
		return
	}
	if len(inconcl) > 0 {
		r.t.Errorf("%s: inconclusive", r.ID)
		return
	}
	if os.Getenv("VERIF_REPLAY") == "" && (evals < 1 || nd < 2) {
		fmt.Printf("INCONCLUSIVE property=%s too few cases observed (evaluations=%d distinct=%d)\n", r.ID, evals, nd)
		r.t.Errorf("%s: observed nothing", r.ID)
	}
}

// TempDir returns a scratch directory under $VERIF_TMP, removed at test end.
func TempDir(t testing.TB, prefix string) string {
	base := os.Getenv("VERIF_TMP")
	if base == "" {
		base = "/var/tmp"
	}
	d, err := os.MkdirTemp(base, prefix)
	if err != nil {
		t.Fatalf("tempdir: %v", err)
	}
	t.Cleanup(func() { os.RemoveAll(d) })
	return d
}

// JSON renders v compactly for case keys.
func JSON(v interface{}) string {
	b, _ := json.Marshal(v)
	return string(b)
}
