package fsrec

import (
	"fmt"
	"path/filepath"
	"strconv"
	"strings"
)

// OpKind names a tree mutation.
type OpKind string

const (
	OpMkdir    OpKind = "mkdir"
	OpCreate   OpKind = "create"   // openat with O_CREAT and/or O_TRUNC that succeeded
	OpWrite    OpKind = "write"    // write/pwrite64 at a known offset
	OpTruncate OpKind = "truncate" // ftruncate/truncate
	OpRename   OpKind = "rename"
	OpUnlink   OpKind = "unlink"
	OpRmdir    OpKind = "rmdir"
	OpLink     OpKind = "link"
	OpSymlink  OpKind = "symlink"
	OpChmod    OpKind = "chmod"
)

// Op is one successful mutating call under the root, paths relative to it.
type Op struct {
	Index   int    `json:"i"`   // index in Trace.Ops
	Seq     int    `json:"seq"` // index of the call in the log (completion order)
	Kind    OpKind `json:"kind"`
	Path    string `json:"path"`
	Path2   string `json:"path2,omitempty"` // rename/link destination, symlink target
	Flags   string `json:"flags,omitempty"` // create: O_ flags as printed
	Mode    uint32 `json:"mode,omitempty"`
	Off     int64  `json:"off,omitempty"`
	Size    int64  `json:"size,omitempty"` // truncate length
	Data    []byte `json:"-"`
	DataLen int    `json:"len,omitempty"`
	TID     int    `json:"tid"`
	// Syscall name and its per-thread ordinal: killing the child with
	// inject=<Syscall>:signal=KILL:when=<NameOrdinal> stops it on entry to this call.
	Syscall     string `json:"syscall"`
	NameOrdinal int    `json:"ordinal"`
}

func (o *Op) String() string {
	switch o.Kind {
	case OpWrite:
		return fmt.Sprintf("#%d write %s off=%d len=%d", o.Index, o.Path, o.Off, len(o.Data))
	case OpRename, OpLink, OpSymlink:
		return fmt.Sprintf("#%d %s %s -> %s", o.Index, o.Kind, o.Path, o.Path2)
	case OpCreate:
		return fmt.Sprintf("#%d create %s [%s]", o.Index, o.Path, o.Flags)
	case OpTruncate:
		return fmt.Sprintf("#%d truncate %s %d", o.Index, o.Path, o.Size)
	}
	return fmt.Sprintf("#%d %s %s", o.Index, o.Kind, o.Path)
}

// Mark is a sentinel call (an mkdir of a path below the sentinel prefix, which
// fails with ENOENT). Before is the number of ops completed before it.
type Mark struct {
	Seq    int
	Text   string // path below the sentinel prefix
	Before int
}

// Trace is what a recorded run did to the tree below Root.
type Trace struct {
	Root  string
	Ops   []*Op
	Marks []Mark
	// Problems lists things the engine cannot represent (a mutating call it
	// does not model, an unknown file offset...). Non-empty => the run must be
	// reported inconclusive (engine fault), never a verdict.
	Problems []string
	// Threads that mutated the tree (a sequential workload has exactly one).
	TIDs map[int]int
	// MutatingCalls counts all calls of the mutating set (any path, any result).
	MutatingCalls int
}

type fdState struct {
	off    int64
	known  bool // offset known
	append bool
	path   string
}

// SentinelPrefix is the (non-existent) directory used for operation marks.
const SentinelPrefix = "/.verif-sentinel/"

// Extract interprets a parsed log relative to root (absolute, clean path).
func Extract(lg *Log, root string) *Trace {
	root = filepath.Clean(root)
	tr := &Trace{Root: root, TIDs: map[int]int{}}
	fds := map[string]*fdState{} // descriptor number (per process; the child is one process)
	isMut := map[string]bool{}
	for _, n := range MutatingSet {
		isMut[n] = true
	}
	problem := func(c *Call, f string, a ...interface{}) {
		if len(tr.Problems) < 20 {
			tr.Problems = append(tr.Problems, fmt.Sprintf("line %d %s: ", c.Line, c.Name)+fmt.Sprintf(f, a...))
		}
	}
	rel := func(p string) (string, bool) {
		p = filepath.Clean(p)
		if p == root {
			return ".", true
		}
		if strings.HasPrefix(p, root+"/") {
			return p[len(root)+1:], true
		}
		return "", false
	}
	// resolve (dirfd, "path") -> absolute path
	resolve := func(c *Call, dirArg, pathArg string) (string, error) {
		pb, err := unhex(pathArg)
		if err != nil {
			return "", err
		}
		p := string(pb)
		if filepath.IsAbs(p) {
			return filepath.Clean(p), nil
		}
		_, dir, err := fdArg(dirArg)
		if err != nil {
			return "", err
		}
		if dir == "" {
			return "", fmt.Errorf("relative path without directory annotation")
		}
		return filepath.Join(dir, p), nil
	}
	add := func(c *Call, op *Op) {
		op.Index = len(tr.Ops)
		op.Seq = c.Seq
		op.TID = c.TID
		op.Syscall = c.Name
		op.NameOrdinal = c.NameOrdinal
		op.DataLen = len(op.Data)
		tr.Ops = append(tr.Ops, op)
		tr.TIDs[c.TID]++
	}
	mode := func(s string) uint32 {
		v, _ := strconv.ParseUint(strings.TrimSpace(s), 8, 32)
		return uint32(v)
	}
	for _, c := range lg.Calls {
		if isMut[c.Name] {
			tr.MutatingCalls++
		}
		switch c.Name {
		case "mkdirat", "mkdir":
			a := c.Args
			if c.Name == "mkdir" {
				a = append([]string{"AT_FDCWD"}, a...)
			}
			if len(a) < 3 {
				if c.Ret != "?" {
					problem(c, "short args")
				}
				continue
			}
			p, err := resolve(c, a[0], a[1])
			if err != nil {
				problem(c, "%v", err)
				continue
			}
			if strings.HasPrefix(p, SentinelPrefix) {
				if c.Ret != "?" { // a mark counts once the call was executed
					tr.Marks = append(tr.Marks, Mark{Seq: c.Seq, Text: p[len(SentinelPrefix):], Before: len(tr.Ops)})
				}
				continue
			}
			if c.Failed() {
				continue
			}
			if r, ok := rel(p); ok {
				add(c, &Op{Kind: OpMkdir, Path: r, Mode: mode(a[2])})
			}
		case "openat", "open", "creat":
			a := c.Args
			if c.Name == "open" {
				a = append([]string{"AT_FDCWD"}, a...)
			}
			if c.Name == "creat" {
				if len(a) < 2 {
					continue
				}
				a = []string{"AT_FDCWD", a[0], "O_WRONLY|O_CREAT|O_TRUNC", a[1]}
			}
			if c.Failed() {
				continue
			}
			if len(a) < 3 {
				problem(c, "short args")
				continue
			}
			p, err := resolve(c, a[0], a[1])
			if err != nil {
				problem(c, "%v", err)
				continue
			}
			fd, _, _ := fdArg(c.Ret)
			flags := a[2]
			st := &fdState{known: true, path: p, append: strings.Contains(flags, "O_APPEND")}
			fds[fd] = st
			r, ok := rel(p)
			if !ok {
				continue
			}
			if strings.Contains(flags, "O_CREAT") || strings.Contains(flags, "O_TRUNC") {
				m := uint32(0)
				if len(a) > 3 {
					m = mode(a[3])
				}
				add(c, &Op{Kind: OpCreate, Path: r, Flags: flags, Mode: m})
			}
			if strings.Contains(flags, "O_TMPFILE") {
				problem(c, "O_TMPFILE not modelled")
			}
		case "openat2":
			if !c.Failed() {
				problem(c, "openat2 not modelled")
			}
		case "close":
			if len(c.Args) >= 1 && !c.Failed() {
				fd, _, _ := fdArg(c.Args[0])
				delete(fds, fd)
			}
		case "dup", "dup2", "dup3":
			if c.Failed() || len(c.Args) < 1 {
				continue
			}
			ofd, p, _ := fdArg(c.Args[0])
			if _, ok := rel(p); ok {
				problem(c, "dup of a descriptor below the root (shared offsets not modelled)")
			}
			nfd, _, _ := fdArg(c.Ret)
			if st, ok := fds[ofd]; ok {
				fds[nfd] = st // shared open file description
			}
		case "fcntl":
			if c.Failed() || len(c.Args) < 2 {
				continue
			}
			if strings.HasPrefix(c.Args[1], "F_DUPFD") {
				ofd, p, _ := fdArg(c.Args[0])
				if _, ok := rel(p); ok {
					problem(c, "F_DUPFD of a descriptor below the root")
				}
				nfd, _, _ := fdArg(c.Ret)
				if st, ok := fds[ofd]; ok {
					fds[nfd] = st
				}
			}
		case "read", "readv":
			if c.Failed() || len(c.Args) < 1 {
				continue
			}
			fd, _, _ := fdArg(c.Args[0])
			if st, ok := fds[fd]; ok {
				if n, ok := c.RetInt(); ok {
					st.off += n
				}
			}
		case "lseek":
			if c.Failed() || len(c.Args) < 1 {
				continue
			}
			fd, _, _ := fdArg(c.Args[0])
			if st, ok := fds[fd]; ok {
				if n, ok := c.RetInt(); ok {
					st.off = n
					st.known = true
				}
			}
		case "write", "pwrite64":
			if c.Failed() || len(c.Args) < 3 {
				continue
			}
			fd, p, err := fdArg(c.Args[0])
			if err != nil {
				problem(c, "%v", err)
				continue
			}
			n, _ := c.RetInt()
			st := fds[fd]
			deleted := strings.HasSuffix(p, " (deleted)")
			r, ok := rel(strings.TrimSuffix(p, " (deleted)"))
			if !ok {
				if st != nil && c.Name == "write" {
					st.off += n
				}
				continue
			}
			data, err := unhex(c.Args[1])
			if err != nil {
				problem(c, "%v", err)
				continue
			}
			if int64(len(data)) < n {
				problem(c, "payload shorter than the return value (%d < %d)", len(data), n)
				continue
			}
			data = data[:n]
			var off int64
			if c.Name == "pwrite64" {
				if len(c.Args) < 4 {
					problem(c, "short args")
					continue
				}
				off, _ = strconv.ParseInt(strings.TrimSpace(c.Args[3]), 0, 64)
			} else {
				if st == nil || !st.known {
					problem(c, "write through a descriptor with unknown offset")
					continue
				}
				if st.append {
					off = -1 // append: resolved at replay time
				} else {
					off = st.off
				}
				st.off += n
			}
			if deleted {
				continue // the file has no name any more: not part of the tree
			}
			add(c, &Op{Kind: OpWrite, Path: r, Off: off, Data: data})
		case "ftruncate":
			if c.Failed() || len(c.Args) < 2 {
				continue
			}
			_, p, _ := fdArg(c.Args[0])
			if strings.HasSuffix(p, " (deleted)") {
				continue
			}
			if r, ok := rel(p); ok {
				sz, _ := strconv.ParseInt(strings.TrimSpace(c.Args[1]), 0, 64)
				add(c, &Op{Kind: OpTruncate, Path: r, Size: sz})
			}
		case "truncate":
			if c.Failed() || len(c.Args) < 2 {
				continue
			}
			p, err := resolve(c, "AT_FDCWD", c.Args[0])
			if err != nil {
				problem(c, "%v", err)
				continue
			}
			if r, ok := rel(p); ok {
				sz, _ := strconv.ParseInt(strings.TrimSpace(c.Args[1]), 0, 64)
				add(c, &Op{Kind: OpTruncate, Path: r, Size: sz})
			}
		case "rename", "renameat", "renameat2", "link", "linkat":
			if c.Failed() {
				continue
			}
			a := c.Args
			if c.Name == "rename" || c.Name == "link" {
				if len(a) < 2 {
					continue
				}
				a = []string{"AT_FDCWD", a[0], "AT_FDCWD", a[1]}
			}
			if len(a) < 4 {
				problem(c, "short args")
				continue
			}
			p1, err1 := resolve(c, a[0], a[1])
			p2, err2 := resolve(c, a[2], a[3])
			if err1 != nil || err2 != nil {
				problem(c, "%v %v", err1, err2)
				continue
			}
			if c.Name == "renameat2" && len(a) > 4 && strings.Contains(a[4], "RENAME_EXCHANGE") {
				problem(c, "RENAME_EXCHANGE not modelled")
			}
			r1, ok1 := rel(p1)
			r2, ok2 := rel(p2)
			if ok1 != ok2 {
				problem(c, "rename/link across the root boundary (%s -> %s)", p1, p2)
				continue
			}
			if !ok1 {
				continue
			}
			k := OpRename
			if strings.HasPrefix(c.Name, "link") {
				k = OpLink
			}
			add(c, &Op{Kind: k, Path: r1, Path2: r2})
		case "unlink", "unlinkat", "rmdir":
			if c.Failed() {
				continue
			}
			a := c.Args
			if c.Name != "unlinkat" {
				if len(a) < 1 {
					continue
				}
				a = []string{"AT_FDCWD", a[0], "0"}
				if c.Name == "rmdir" {
					a[2] = "AT_REMOVEDIR"
				}
			}
			if len(a) < 3 {
				problem(c, "short args")
				continue
			}
			p, err := resolve(c, a[0], a[1])
			if err != nil {
				problem(c, "%v", err)
				continue
			}
			if r, ok := rel(p); ok {
				k := OpUnlink
				if strings.Contains(a[2], "AT_REMOVEDIR") {
					k = OpRmdir
				}
				add(c, &Op{Kind: k, Path: r})
			}
		case "symlink", "symlinkat":
			if c.Failed() {
				continue
			}
			a := c.Args
			if c.Name == "symlink" {
				if len(a) < 2 {
					continue
				}
				a = []string{a[0], "AT_FDCWD", a[1]}
			}
			if len(a) < 3 {
				continue
			}
			tb, err := unhex(a[0])
			if err != nil {
				problem(c, "%v", err)
				continue
			}
			p, err := resolve(c, a[1], a[2])
			if err != nil {
				problem(c, "%v", err)
				continue
			}
			if r, ok := rel(p); ok {
				add(c, &Op{Kind: OpSymlink, Path: r, Path2: string(tb)})
			}
		case "chmod", "fchmodat", "fchmod":
			if c.Failed() || len(c.Args) < 2 {
				continue
			}
			var p string
			var m string
			var err error
			switch c.Name {
			case "chmod":
				p, err = resolve(c, "AT_FDCWD", c.Args[0])
				m = c.Args[1]
			case "fchmodat":
				if len(c.Args) < 3 {
					continue
				}
				p, err = resolve(c, c.Args[0], c.Args[1])
				m = c.Args[2]
			default:
				_, p, err = fdArg(c.Args[0])
				m = c.Args[1]
			}
			if err != nil {
				problem(c, "%v", err)
				continue
			}
			if r, ok := rel(p); ok {
				add(c, &Op{Kind: OpChmod, Path: r, Mode: mode(m)})
			}
		case "utimensat":
			// timestamps are not part of the compared tree
		case "chdir", "fchdir":
			// AT_FDCWD annotations carry the current directory on every call
		default:
			if !isMut[c.Name] || c.Failed() {
				continue
			}
			// a mutating call the replayer does not model: harmless only when no
			// argument names something below the root
			touches := false
			for _, a := range c.Args {
				if _, p, err := fdArg(a); err == nil && p != "" {
					if _, ok := rel(strings.TrimSuffix(p, " (deleted)")); ok {
						touches = true
					}
				}
				if strings.HasPrefix(a, "\"") {
					if b, err := unhex(a); err == nil && filepath.IsAbs(string(b)) {
						if _, ok := rel(string(b)); ok {
							touches = true
						}
					}
				}
			}
			if touches {
				problem(c, "mutating call below the root is not modelled by the replayer")
			}
		}
	}
	return tr
}

// Window describes the position of prefix k among the marked operations.
type Window struct {
	// Completed is the number of logical operations whose end mark precedes the
	// first not-yet-applied op; InFlight is the index of the operation that
	// contains that op (-1 for the full log).
	Completed int
	InFlight  int
}

// OpSpan is the [First, Last] op-index range of one logical operation between
// its begin and end marks (First > Last when it did not mutate the tree).
type OpSpan struct {
	Name        string // text of the begin mark
	Result      string // text of the end mark
	First, Last int
	Ended       bool
}

// Spans pairs "b/<i>/<name>" and "e/<i>/<result>" marks.
func (tr *Trace) Spans() ([]OpSpan, error) {
	var out []OpSpan
	for _, m := range tr.Marks {
		parts := strings.SplitN(m.Text, "/", 3)
		if len(parts) < 2 {
			return nil, fmt.Errorf("bad mark %q", m.Text)
		}
		idx, err := strconv.Atoi(parts[1])
		if err != nil {
			return nil, fmt.Errorf("bad mark %q", m.Text)
		}
		txt := ""
		if len(parts) == 3 {
			txt = parts[2]
		}
		switch parts[0] {
		case "b":
			if idx != len(out) {
				return nil, fmt.Errorf("mark %q out of order (have %d spans)", m.Text, len(out))
			}
			if idx > 0 && !out[idx-1].Ended {
				return nil, fmt.Errorf("mark %q begins before span %d ended", m.Text, idx-1)
			}
			out = append(out, OpSpan{Name: txt, First: m.Before, Last: m.Before - 1})
		case "e":
			if idx != len(out)-1 || out[idx].Ended {
				return nil, fmt.Errorf("mark %q without matching begin", m.Text)
			}
			out[idx].Result = txt
			out[idx].Last = m.Before - 1
			out[idx].Ended = true
		default:
			return nil, fmt.Errorf("bad mark %q", m.Text)
		}
	}
	// every op must lie inside exactly one span
	pos := 0
	for _, s := range out {
		last := s.Last
		if !s.Ended {
			last = len(tr.Ops) - 1 // the run stopped inside this operation
		}
		if last < s.First {
			continue
		}
		if s.First != pos {
			return nil, fmt.Errorf("ops %d..%d are outside any marked operation", pos, s.First-1)
		}
		pos = last + 1
	}
	if pos != len(tr.Ops) {
		return nil, fmt.Errorf("ops %d..%d are outside any marked operation", pos, len(tr.Ops)-1)
	}
	return out, nil
}

// WindowOf maps prefix k (ops 0..k-1 applied, crash on entry to op k) to the
// logical operations: spans[0..Completed-1] have returned, spans[InFlight] was
// executing. For k == len(Ops) everything recorded has completed.
func WindowOf(spans []OpSpan, k, nops int) Window {
	if k >= nops {
		n := 0
		for _, s := range spans {
			if s.Ended {
				n++
			}
		}
		return Window{Completed: n, InFlight: -1}
	}
	for i, s := range spans {
		if s.First <= k && k <= s.Last {
			return Window{Completed: i, InFlight: i}
		}
	}
	return Window{Completed: len(spans), InFlight: -1}
}
