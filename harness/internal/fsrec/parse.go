// Package fsrec is the crash-prefix engine (DESIGN.md 2.4).
//
// A child process runs a sequential workload on one locked OS thread under
//
//	strace -f -y -xx -s <big> -e trace=<TraceSet>
//
// fsrec parses the log, keeps the successful mutating calls under the store
// root in completion order (Ops), remembers the sentinel calls that mark
// logical operation boundaries (Marks), can materialise every prefix of the
// ops as a directory tree (Replayer) and compares trees (Snapshot / Diff).
// The replayer is re-validated on every run by the caller: replaying the whole
// log must reproduce the tree the child really left behind (fidelity check),
// and a sample of prefixes is compared with trees left by children that were
// really killed by strace's syscall injection (KillSpec).
package fsrec

import (
	"bufio"
	"fmt"
	"os"
	"strconv"
	"strings"
)

// MutatingSet is the set of file-system calls that can change a tree; these are
// the calls strace may be asked to kill on.
var MutatingSet = []string{
	"open", "openat", "creat", "mkdir", "mkdirat", "write", "pwrite64", "writev", "pwritev", "pwritev2",
	"ftruncate", "truncate", "rename", "renameat", "renameat2", "unlink", "unlinkat", "rmdir",
	"link", "linkat", "symlink", "symlinkat", "chmod", "fchmod", "fchmodat", "fallocate",
	"copy_file_range", "sendfile", "splice", "utimensat", "mknod", "mknodat",
	"setxattr", "fsetxattr", "lsetxattr", "removexattr", "fremovexattr", "lremovexattr",
}

// TraceSet is what strace records: the mutating calls plus the calls needed to
// follow descriptors and file offsets.
var TraceSet = append(append([]string{}, MutatingSet...),
	"read", "readv", "lseek", "close", "dup", "dup2", "dup3", "fcntl", "chdir", "fchdir", "openat2")

// Call is one decoded strace line (unfinished/resumed pairs merged), in
// completion order.
type Call struct {
	Seq   int // index in Log.Calls
	Line  int // line number of the completing line
	TID   int
	Name  string
	Args  []string // raw top-level arguments
	Ret   string   // raw return text ("0", "5<...>", "-1", "?")
	Errno string   // "ENOENT" ... or ""
	// NameOrdinal is the 1-based count of calls with this name entered by this
	// TID up to and including this one (strace's inject when= counter).
	NameOrdinal int
}

// Failed reports whether the call did not succeed (or never returned).
func (c *Call) Failed() bool { return c.Errno != "" || c.Ret == "?" || strings.HasPrefix(c.Ret, "-1") }

// RetInt returns the numeric return value.
func (c *Call) RetInt() (int64, bool) {
	s := c.Ret
	if i := strings.IndexByte(s, '<'); i >= 0 {
		s = s[:i]
	}
	v, err := strconv.ParseInt(strings.TrimSpace(s), 0, 64)
	return v, err == nil
}

// Log is a parsed strace log.
type Log struct {
	Calls  []*Call
	Killed bool // a "+++ killed by SIGKILL +++" line was seen
	Exit   map[int]string
}

type pending struct {
	text string
	ord  int
}

// ParseFile parses a strace log written with -f -y -xx -o.
func ParseFile(path string) (*Log, error) {
	f, err := os.Open(path)
	if err != nil {
		return nil, err
	}
	defer f.Close()
	lg := &Log{Exit: map[int]string{}}
	sc := bufio.NewScanner(f)
	sc.Buffer(make([]byte, 1<<20), 1<<30)
	unfinished := map[int]pending{}
	entered := map[int]map[string]int{} // tid -> name -> entries so far
	enter := func(tid int, name string) int {
		m := entered[tid]
		if m == nil {
			m = map[string]int{}
			entered[tid] = m
		}
		m[name]++
		return m[name]
	}
	ln := 0
	for sc.Scan() {
		ln++
		line := sc.Text()
		sp := strings.IndexByte(line, ' ')
		if sp <= 0 {
			return nil, fmt.Errorf("line %d: no pid column (strace must run with -f -o): %.80q", ln, line)
		}
		tid, err := strconv.Atoi(line[:sp])
		if err != nil {
			return nil, fmt.Errorf("line %d: bad pid: %.80q", ln, line)
		}
		rest := strings.TrimLeft(line[sp:], " ")
		switch {
		case strings.HasPrefix(rest, "--- "):
			continue // signal delivery
		case strings.HasPrefix(rest, "+++ "):
			lg.Exit[tid] = rest
			if strings.Contains(rest, "killed by SIGKILL") {
				lg.Killed = true
			}
			continue
		}
		ord := 0
		if strings.HasPrefix(rest, "<... ") {
			// "<... name resumed>tail"
			end := strings.Index(rest, " resumed>")
			if end < 0 {
				return nil, fmt.Errorf("line %d: bad resumed line: %.80q", ln, line)
			}
			p, ok := unfinished[tid]
			if !ok {
				return nil, fmt.Errorf("line %d: resumed without unfinished (tid %d)", ln, tid)
			}
			delete(unfinished, tid)
			rest = p.text + rest[end+len(" resumed>"):]
			ord = p.ord
		} else {
			par := strings.IndexByte(rest, '(')
			if par <= 0 {
				return nil, fmt.Errorf("line %d: not a syscall line: %.80q", ln, line)
			}
			ord = enter(tid, rest[:par])
			if strings.HasSuffix(rest, " <unfinished ...>") {
				unfinished[tid] = pending{text: strings.TrimSuffix(rest, " <unfinished ...>"), ord: ord}
				continue
			}
		}
		c, err := parseCall(rest)
		if err != nil {
			return nil, fmt.Errorf("line %d: %v: %.120q", ln, err, rest)
		}
		c.TID, c.Line, c.Seq, c.NameOrdinal = tid, ln, len(lg.Calls), ord
		lg.Calls = append(lg.Calls, c)
	}
	if err := sc.Err(); err != nil {
		return nil, err
	}
	// calls that were entered but never returned (killed in flight)
	for tid, p := range unfinished {
		par := strings.IndexByte(p.text, '(')
		c := &Call{TID: tid, Line: ln, Seq: len(lg.Calls), Name: p.text[:par], Ret: "?", NameOrdinal: p.ord}
		lg.Calls = append(lg.Calls, c)
	}
	return lg, nil
}

// parseCall decodes "name(args) = ret [ERRNO (text)]" or "name(args) = ?".
func parseCall(s string) (*Call, error) {
	par := strings.IndexByte(s, '(')
	if par <= 0 {
		return nil, fmt.Errorf("no '('")
	}
	c := &Call{Name: s[:par]}
	i := par + 1
	depth := 0
	start := i
	inStr := false
	inAngle := 0
	closed := -1
loop:
	for ; i < len(s); i++ {
		ch := s[i]
		if inStr {
			if ch == '\\' {
				i++
			} else if ch == '"' {
				inStr = false
			}
			continue
		}
		if inAngle > 0 {
			// fd path annotation: everything is hex-escaped under -xx, so a raw '>' ends it
			if ch == '>' {
				inAngle--
			}
			continue
		}
		switch ch {
		case '"':
			inStr = true
		case '<':
			// only directly after a number / AT_FDCWD (annotation), never an operator in our call set
			inAngle++
		case '{', '[', '(':
			depth++
		case '}', ']':
			depth--
		case ')':
			if depth == 0 {
				closed = i
				break loop
			}
			depth--
		case ',':
			if depth == 0 {
				c.Args = append(c.Args, strings.TrimSpace(s[start:i]))
				start = i + 1
			}
		}
	}
	if closed < 0 {
		return nil, fmt.Errorf("unterminated argument list")
	}
	if last := strings.TrimSpace(s[start:closed]); last != "" || len(c.Args) > 0 {
		c.Args = append(c.Args, last)
	}
	tail := strings.TrimSpace(s[closed+1:])
	if !strings.HasPrefix(tail, "=") {
		return nil, fmt.Errorf("no return value")
	}
	tail = strings.TrimSpace(tail[1:])
	// ret is the first token (may carry an <annotation>)
	end := len(tail)
	if sp := strings.IndexByte(tail, ' '); sp >= 0 {
		end = sp
	}
	c.Ret = tail[:end]
	more := strings.TrimSpace(tail[end:])
	if strings.HasPrefix(c.Ret, "-1") && more != "" {
		c.Errno = more
		if sp := strings.IndexByte(more, ' '); sp >= 0 {
			c.Errno = more[:sp]
		}
	}
	return c, nil
}

// unhex decodes a -xx quoted string literal (`"\x41\x42"`); truncated literals
// (trailing "...") are an error because the payload would be incomplete.
func unhex(lit string) ([]byte, error) {
	if strings.HasSuffix(lit, "...") {
		return nil, fmt.Errorf("string literal truncated by strace -s")
	}
	if len(lit) < 2 || lit[0] != '"' || lit[len(lit)-1] != '"' {
		return nil, fmt.Errorf("not a string literal: %.40q", lit)
	}
	return unhexRaw(lit[1 : len(lit)-1])
}

func unhexRaw(body string) ([]byte, error) {
	out := make([]byte, 0, len(body)/4)
	for i := 0; i < len(body); {
		if body[i] == '\\' && i+3 < len(body)+0 && body[i+1] == 'x' {
			if i+4 > len(body) {
				return nil, fmt.Errorf("short escape")
			}
			v, err := strconv.ParseUint(body[i+2:i+4], 16, 8)
			if err != nil {
				return nil, err
			}
			out = append(out, byte(v))
			i += 4
			continue
		}
		// unescaped byte (only without -xx)
		out = append(out, body[i])
		i++
	}
	return out, nil
}

// fdArg splits "5<path>" / "AT_FDCWD<path>" into the descriptor text and the
// decoded path annotation.
func fdArg(a string) (fd string, path string, err error) {
	i := strings.IndexByte(a, '<')
	if i < 0 {
		return a, "", nil
	}
	if !strings.HasSuffix(a, ">") {
		return "", "", fmt.Errorf("bad fd annotation %.40q", a)
	}
	b, err := unhexRaw(a[i+1 : len(a)-1])
	if err != nil {
		return "", "", err
	}
	return a[:i], string(b), nil
}
