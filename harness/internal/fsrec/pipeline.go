package fsrec

import (
	"bufio"
	"fmt"
	"io"
	"os/exec"
	"time"
)

// Reply is a child's answer to one request line.
type Reply struct {
	Line   []byte // the answer line (nil when Died)
	Died   bool   // the child process died while handling this request
	Stderr string // tail of the child's stderr when it died
}

// Pipeline feeds one request line after the other to a child that answers
// every line it reads from stdin with exactly one line on stdout, handling
// them sequentially. Requests are written ahead (no ping-pong latency). When
// the child dies, the first unanswered request is the one that killed it: it
// is marked Died and a fresh child continues with the next request, so one
// fatal case cannot take the others with it. The watchdog bounds the whole
// exchange; its expiry is an error (the caller reports inconclusive).
func Pipeline(argv []string, env []string, reqs [][]byte, watchdog time.Duration) ([]Reply, error) {
	out := make([]Reply, len(reqs))
	deadline := time.Now().Add(watchdog)
	next := 0
	for next < len(reqs) {
		cmd := exec.Command(argv[0], argv[1:]...)
		cmd.Env = env
		tb := &TailBuffer{Max: 6000}
		cmd.Stderr = tb
		in, err := cmd.StdinPipe()
		if err != nil {
			return nil, err
		}
		so, err := cmd.StdoutPipe()
		if err != nil {
			return nil, err
		}
		if err := cmd.Start(); err != nil {
			return nil, err
		}
		timer := time.AfterFunc(time.Until(deadline), func() { _ = cmd.Process.Kill() })
		first := next
		go func() {
			w := bufio.NewWriterSize(in, 1<<16)
			for i := first; i < len(reqs); i++ {
				if _, err := w.Write(reqs[i]); err != nil {
					break
				}
				if err := w.WriteByte('\n'); err != nil {
					break
				}
			}
			_ = w.Flush()
			_ = in.Close()
		}()
		rd := bufio.NewReaderSize(so, 1<<20)
		for next < len(reqs) {
			line, err := rd.ReadBytes('\n')
			if err != nil {
				break
			}
			out[next] = Reply{Line: line}
			next++
		}
		_, _ = io.Copy(io.Discard, rd)
		_ = cmd.Wait()
		timer.Stop()
		if time.Now().After(deadline) {
			return out, fmt.Errorf("watchdog: recovery child did not finish within %v", watchdog)
		}
		if next < len(reqs) {
			out[next] = Reply{Died: true, Stderr: tb.String()}
			next++
		}
	}
	return out, nil
}
