package fsrec

import (
	"crypto/sha256"
	"encoding/hex"
	"fmt"
	"io"
	"os"
	"path/filepath"
	"sort"
	"strings"
	"syscall"
)

// Replayer applies ops to a directory.
type Replayer struct {
	Dir     string
	Applied int
}

// NewReplayer starts from an empty directory dir (created if needed).
func NewReplayer(dir string) (*Replayer, error) {
	if err := os.MkdirAll(dir, 0o755); err != nil {
		return nil, err
	}
	return &Replayer{Dir: dir}, nil
}

func openFlags(s string) int {
	f := 0
	for _, p := range strings.Split(s, "|") {
		switch strings.TrimSpace(p) {
		case "O_WRONLY":
			f |= os.O_WRONLY
		case "O_RDWR":
			f |= os.O_RDWR
		case "O_CREAT":
			f |= os.O_CREATE
		case "O_EXCL":
			f |= os.O_EXCL
		case "O_TRUNC":
			f |= os.O_TRUNC
		case "O_APPEND":
			f |= os.O_APPEND
		}
	}
	return f
}

// Apply performs one op. An error means the replayed tree has diverged from
// what the recorded process saw (engine fault).
func (r *Replayer) Apply(op *Op) error {
	p := filepath.Join(r.Dir, op.Path)
	var err error
	switch op.Kind {
	case OpMkdir:
		if op.Path == "." {
			// the root itself: the replay directory always exists (a store treats a
			// missing and an empty root alike)
			break
		}
		err = syscall.Mkdir(p, op.Mode)
	case OpCreate:
		fl := openFlags(op.Flags)
		if fl&(os.O_WRONLY|os.O_RDWR) == 0 && fl&os.O_TRUNC != 0 {
			// O_RDONLY|O_TRUNC is unspecified; Linux truncates. Keep it explicit.
			fl |= os.O_WRONLY
		}
		var fd int
		fd, err = syscall.Open(p, fl|syscall.O_CLOEXEC, op.Mode)
		if err == nil {
			syscall.Close(fd)
		}
	case OpWrite:
		var f *os.File
		f, err = os.OpenFile(p, os.O_WRONLY, 0)
		if err != nil {
			break
		}
		off := op.Off
		if off < 0 {
			var st os.FileInfo
			if st, err = f.Stat(); err != nil {
				f.Close()
				break
			}
			off = st.Size()
		}
		_, err = f.WriteAt(op.Data, off)
		f.Close()
	case OpTruncate:
		err = os.Truncate(p, op.Size)
	case OpRename:
		err = os.Rename(p, filepath.Join(r.Dir, op.Path2))
	case OpLink:
		err = os.Link(p, filepath.Join(r.Dir, op.Path2))
	case OpSymlink:
		err = os.Symlink(op.Path2, p)
	case OpUnlink:
		err = syscall.Unlink(p)
	case OpRmdir:
		err = syscall.Rmdir(p)
	case OpChmod:
		err = syscall.Chmod(p, op.Mode)
	default:
		err = fmt.Errorf("unknown op kind %q", op.Kind)
	}
	if err != nil {
		return fmt.Errorf("replay %s: %w", op, err)
	}
	r.Applied++
	return nil
}

// ApplyTo applies ops until k of them have been applied in total.
func (r *Replayer) ApplyTo(ops []*Op, k int) error {
	for r.Applied < k {
		if err := r.Apply(ops[r.Applied]); err != nil {
			return err
		}
	}
	return nil
}

// Entry describes one path of a tree snapshot.
type Entry struct {
	Type string // "dir", "file", "symlink", "other"
	Mode uint32 // permission bits
	Size int64
	Sum  string // sha256 of a file's bytes / symlink target
}

// Snapshot walks dir (which must exist) and returns path -> Entry; the root
// itself is not included.
func Snapshot(dir string) (map[string]Entry, error) {
	out := map[string]Entry{}
	err := filepath.Walk(dir, func(p string, info os.FileInfo, err error) error {
		if err != nil {
			return err
		}
		if p == dir {
			return nil
		}
		rel, _ := filepath.Rel(dir, p)
		e := Entry{Mode: uint32(info.Mode().Perm())}
		switch {
		case info.IsDir():
			e.Type = "dir"
		case info.Mode()&os.ModeSymlink != 0:
			e.Type = "symlink"
			t, err := os.Readlink(p)
			if err != nil {
				return err
			}
			e.Sum = t
			e.Mode = 0
		case info.Mode().IsRegular():
			e.Type = "file"
			e.Size = info.Size()
			f, err := os.Open(p)
			if err != nil {
				return err
			}
			h := sha256.New()
			_, err = io.Copy(h, f)
			f.Close()
			if err != nil {
				return err
			}
			e.Sum = hex.EncodeToString(h.Sum(nil))
		default:
			e.Type = "other"
		}
		out[rel] = e
		return nil
	})
	if os.IsNotExist(err) {
		return out, nil
	}
	return out, err
}

// Diff lists the differences between two snapshots (empty = identical).
func Diff(a, b map[string]Entry) []string {
	var out []string
	keys := map[string]struct{}{}
	for k := range a {
		keys[k] = struct{}{}
	}
	for k := range b {
		keys[k] = struct{}{}
	}
	ks := make([]string, 0, len(keys))
	for k := range keys {
		ks = append(ks, k)
	}
	sort.Strings(ks)
	for _, k := range ks {
		ea, oka := a[k]
		eb, okb := b[k]
		switch {
		case !oka:
			out = append(out, fmt.Sprintf("only in second: %s (%s)", k, eb.Type))
		case !okb:
			out = append(out, fmt.Sprintf("only in first: %s (%s)", k, ea.Type))
		case ea != eb:
			out = append(out, fmt.Sprintf("differs: %s %+v vs %+v", k, ea, eb))
		}
	}
	return out
}

// Listing renders a snapshot compactly for witnesses ("path [size]").
func Listing(s map[string]Entry) []string {
	ks := make([]string, 0, len(s))
	for k, e := range s {
		switch e.Type {
		case "dir":
			ks = append(ks, k+"/")
		case "file":
			ks = append(ks, fmt.Sprintf("%s [%d bytes]", k, e.Size))
		default:
			ks = append(ks, k+" ("+e.Type+")")
		}
	}
	sort.Strings(ks)
	return ks
}

// CopyTree copies the tree below src to dst (dst is created; regular files,
// directories and symlinks; modes preserved).
func CopyTree(src, dst string) error {
	return filepath.Walk(src, func(p string, info os.FileInfo, err error) error {
		if err != nil {
			return err
		}
		rel, _ := filepath.Rel(src, p)
		t := filepath.Join(dst, rel)
		switch {
		case info.IsDir():
			if err := os.MkdirAll(t, 0o755); err != nil {
				return err
			}
			return os.Chmod(t, info.Mode().Perm())
		case info.Mode()&os.ModeSymlink != 0:
			l, err := os.Readlink(p)
			if err != nil {
				return err
			}
			return os.Symlink(l, t)
		case info.Mode().IsRegular():
			b, err := os.ReadFile(p)
			if err != nil {
				return err
			}
			if err := os.WriteFile(t, b, info.Mode().Perm()); err != nil {
				return err
			}
			if err := os.Chmod(t, info.Mode().Perm()); err != nil {
				return err
			}
			return os.Chtimes(t, info.ModTime(), info.ModTime())
		}
		return nil
	})
}
