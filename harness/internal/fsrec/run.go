package fsrec

import (
	"bytes"
	"context"
	"fmt"
	"os"
	"os/exec"
	"path/filepath"
	"strings"
	"time"
)

// KillSpec asks strace to SIGKILL the child on entry to the When-th call of
// Syscall made by one thread (strace keeps one counter per syscall and tracee;
// the call itself is not executed).
type KillSpec struct {
	Syscall string
	When    int
}

// KillAt returns the spec that stops a re-run of the same workload on entry to
// op (so that exactly the ops before it have been applied).
func KillAt(op *Op) KillSpec { return KillSpec{Syscall: op.Syscall, When: op.NameOrdinal} }

// Record runs argv under strace and writes the log to logPath. With a KillSpec
// the child is expected to die by SIGKILL. The watchdog only guards against a
// hung child.
func Record(argv []string, env []string, logPath string, kill *KillSpec, watchdog time.Duration) (stdout, stderr []byte, err error) {
	args := []string{"-f", "-y", "-xx", "-s", "16777216", "-o", logPath, "-e", "trace=" + strings.Join(TraceSet, ",")}
	if kill != nil {
		args = append(args, "-e", fmt.Sprintf("inject=%s:signal=KILL:when=%d", kill.Syscall, kill.When))
	}
	args = append(args, argv...)
	ctx, cancel := context.WithTimeout(context.Background(), watchdog)
	defer cancel()
	cmd := exec.CommandContext(ctx, "strace", args...)
	cmd.Env = env
	var so, se bytes.Buffer
	cmd.Stdout, cmd.Stderr = &so, &se
	err = cmd.Run()
	if ctx.Err() != nil {
		return so.Bytes(), se.Bytes(), fmt.Errorf("watchdog: child did not finish within %v", watchdog)
	}
	return so.Bytes(), se.Bytes(), err
}

// Recording is a recorded, parsed and self-checked run.
type Recording struct {
	Trace *Trace
	Spans []OpSpan
	Final map[string]Entry // the tree the child really left behind
}

// Load parses logPath relative to root, pairs the marks and performs the
// fidelity self-check against the real tree at root: replaying every op on an
// empty directory (scratch) must reproduce it byte for byte. Any error is an
// engine fault: the caller reports the run inconclusive.
func Load(logPath, root, scratch string) (*Recording, error) {
	lg, err := ParseFile(logPath)
	if err != nil {
		return nil, fmt.Errorf("parse: %w", err)
	}
	tr := Extract(lg, root)
	if len(tr.Problems) > 0 {
		return nil, fmt.Errorf("trace not representable: %s", strings.Join(tr.Problems, "; "))
	}
	if len(tr.TIDs) > 1 {
		return nil, fmt.Errorf("tree was mutated by %d threads; the workload is not sequential (%v)", len(tr.TIDs), tr.TIDs)
	}
	spans, err := tr.Spans()
	if err != nil {
		return nil, fmt.Errorf("marks: %w", err)
	}
	final, err := Snapshot(root)
	if err != nil {
		return nil, err
	}
	rp, err := NewReplayer(filepath.Join(scratch, "fidelity"))
	if err != nil {
		return nil, err
	}
	defer os.RemoveAll(rp.Dir)
	if err := rp.ApplyTo(tr.Ops, len(tr.Ops)); err != nil {
		return nil, fmt.Errorf("fidelity: %w", err)
	}
	got, err := Snapshot(rp.Dir)
	if err != nil {
		return nil, err
	}
	if d := Diff(final, got); len(d) > 0 {
		if len(d) > 8 {
			d = d[:8]
		}
		return nil, fmt.Errorf("fidelity: replayed tree differs from the real one: %s", strings.Join(d, "; "))
	}
	return &Recording{Trace: tr, Spans: spans, Final: final}, nil
}

// CrossValidate compares the tree left by a really killed child (killRoot,
// killLog) with the replay engine. The killed run's own log must replay to
// exactly the tree it left (every call that completed before the kill is
// applied, the call it was killed on is not). When the killed run performed a
// prefix of the recorded ops (deterministic workload) that prefix of the
// ORIGINAL recording must give the same tree as well (exact = true); when the
// two executions legitimately differ (e.g. kraken iterates a Go map while
// copying sidecars) only the self-replay is compared (exact = false). It
// returns the number of ops the killed run performed.
func (rec *Recording) CrossValidate(killLog, killRoot, scratch string, ignore func(path string) bool) (n int, exact bool, err error) {
	return rec.CrossValidateCanon(killLog, killRoot, scratch, ignore, nil)
}

// CrossValidateCanon is CrossValidate with a path canonicaliser: two paths that
// canon maps to the same string are the same path for the comparison with the
// original recording (e.g. temporary names that embed a random uuid).
func (rec *Recording) CrossValidateCanon(killLog, killRoot, scratch string, ignore func(path string) bool, canon func(path string) string) (n int, exact bool, err error) {
	if canon == nil {
		canon = func(p string) string { return p }
	}
	lg, err := ParseFile(killLog)
	if err != nil {
		return 0, false, fmt.Errorf("parse kill log: %w", err)
	}
	if !lg.Killed {
		return 0, false, fmt.Errorf("child was not killed")
	}
	ktr := Extract(lg, killRoot)
	if len(ktr.Problems) > 0 {
		return 0, false, fmt.Errorf("kill trace not representable: %s", strings.Join(ktr.Problems, "; "))
	}
	n = len(ktr.Ops)
	exact = n <= len(rec.Trace.Ops)
	for i := 0; exact && i < n; i++ {
		a, b := rec.Trace.Ops[i], ktr.Ops[i]
		if a.Kind != b.Kind || canon(a.Path) != canon(b.Path) || canon(a.Path2) != canon(b.Path2) || a.Off != b.Off || a.Size != b.Size ||
			(!bytes.Equal(a.Data, b.Data) && (ignore == nil || !ignore(a.Path))) {
			exact = false
		}
	}
	want, err := Snapshot(killRoot)
	if err != nil {
		return n, exact, err
	}
	mask := func(m map[string]Entry, canonicalise bool) map[string]Entry {
		out := map[string]Entry{}
		for p, e := range m {
			if ignore != nil && ignore(p) {
				e.Sum = ""
			}
			if canonicalise {
				p = canon(p)
			}
			out[p] = e
		}
		return out
	}
	compare := func(ops []*Op, what string, canonicalise bool) error {
		rp, err := NewReplayer(filepath.Join(scratch, "xval"))
		if err != nil {
			return err
		}
		defer os.RemoveAll(rp.Dir)
		if err := rp.ApplyTo(ops, n); err != nil {
			return err
		}
		got, err := Snapshot(rp.Dir)
		if err != nil {
			return err
		}
		if d := Diff(mask(want, canonicalise), mask(got, canonicalise)); len(d) > 0 {
			if len(d) > 8 {
				d = d[:8]
			}
			return fmt.Errorf("tree left by the killed child differs from %s prefix %d: %s", what, n, strings.Join(d, "; "))
		}
		return nil
	}
	if err := compare(ktr.Ops, "the replay of its own log,", false); err != nil {
		return n, exact, err
	}
	if exact {
		if err := compare(rec.Trace.Ops, "the recording's replayed", true); err != nil {
			return n, exact, err
		}
	}
	return n, exact, nil
}

// ChildModfile returns the -modfile the child processes are built with ("" =
// the harness go.mod, i.e. /repo): VERIF_MODFILE, or the go.mod that
// `VERIF_REPO=<worktree> ./check` writes into $VERIF_TMP.
func ChildModfile() string {
	if mf := os.Getenv("VERIF_MODFILE"); mf != "" {
		return mf
	}
	if os.Getenv("VERIF_REPO") != "" && os.Getenv("VERIF_TMP") != "" {
		cand := filepath.Join(os.Getenv("VERIF_TMP"), "go.mod")
		if _, err := os.Stat(cand); err == nil {
			return cand
		}
	}
	return ""
}

// HarnessDir locates the verif/harness module directory.
func HarnessDir() (string, error) {
	if d := os.Getenv("VERIF_HARNESS"); d != "" {
		return d, nil
	}
	wd, err := os.Getwd()
	if err != nil {
		return "", err
	}
	for d := wd; d != "/"; d = filepath.Dir(d) {
		if b, err := os.ReadFile(filepath.Join(d, "go.mod")); err == nil && bytes.Contains(b, []byte("module verif/harness")) {
			return d, nil
		}
	}
	return "", fmt.Errorf("verif/harness module not found above %s", wd)
}

// BuildChild builds the main package pkg (relative to the harness module, e.g.
// "./c06/cmd/c06child") with the verif tag into out. It always reflects the
// current working tree of the kraken module the harness is built against. A
// test that is run against another tree with `go test -modfile F` must also
// export VERIF_MODFILE=F (or put -modfile into GOFLAGS) so that the child is
// built against the same tree; `VERIF_REPO=<tree> ./check` is recognised by
// itself.
func BuildChild(pkg, out string) error {
	hd, err := HarnessDir()
	if err != nil {
		return err
	}
	args := []string{"build", "-tags", "verif", "-o", out}
	mf := ChildModfile()
	if mf != "" {
		args = append(args, "-modfile", mf)
	}
	args = append(args, pkg)
	cmd := exec.Command("go", args...)
	cmd.Dir = hd
	cmd.Env = append(os.Environ(), "GOPROXY=off")
	if os.Getenv("GOFLAGS") == "" {
		cmd.Env = append(cmd.Env, "GOFLAGS=-mod=mod")
	}
	outb, err := cmd.CombinedOutput()
	if err != nil {
		return fmt.Errorf("go build %s: %v\n%s", pkg, err, outb)
	}
	return nil
}
