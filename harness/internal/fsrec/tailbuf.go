package fsrec

import "sync"

// TailBuffer is a concurrency-safe io.Writer that keeps the last Max bytes
// (for a child's stderr, which exec copies from its own goroutine).
type TailBuffer struct {
	Max int
	mu  sync.Mutex
	b   []byte
}

func (t *TailBuffer) Write(p []byte) (int, error) {
	t.mu.Lock()
	defer t.mu.Unlock()
	t.b = append(t.b, p...)
	max := t.Max
	if max <= 0 {
		max = 8192
	}
	if len(t.b) > 2*max {
		t.b = append([]byte{}, t.b[len(t.b)-max:]...)
	}
	return len(p), nil
}

// String returns the retained tail.
func (t *TailBuffer) String() string {
	t.mu.Lock()
	defer t.mu.Unlock()
	max := t.Max
	if max <= 0 {
		max = 8192
	}
	b := t.b
	if len(b) > max {
		b = b[len(b)-max:]
	}
	return string(b)
}

// Reset drops the retained bytes.
func (t *TailBuffer) Reset() {
	t.mu.Lock()
	t.b = t.b[:0]
	t.mu.Unlock()
}
