// Package gen holds the seeded generators shared by the checks.
package gen

import (
	"crypto/sha256"
	"encoding/hex"
	"math/rand"
	"strings"
)

const lowerAlnum = "abcdefghijklmnopqrstuvwxyz0123456789"
const wordChars = "abcdefghijklmnopqrstuvwxyzABCDEFGHIJKLMNOPQRSTUVWXYZ0123456789_"

// Bytes returns n PRNG bytes.
func Bytes(r *rand.Rand, n int) []byte {
	b := make([]byte, n)
	r.Read(b)
	return b
}

// Hex returns n random lowercase hex characters.
func Hex(r *rand.Rand, n int) string {
	const h = "0123456789abcdef"
	b := make([]byte, n)
	for i := range b {
		b[i] = h[r.Intn(16)]
	}
	return string(b)
}

// SHA256Hex returns hex(sha256(b)).
func SHA256Hex(b []byte) string {
	s := sha256.Sum256(b)
	return hex.EncodeToString(s[:])
}

func str(r *rand.Rand, alphabet string, min, max int) string {
	n := min + r.Intn(max-min+1)
	b := make([]byte, n)
	for i := range b {
		b[i] = alphabet[r.Intn(len(alphabet))]
	}
	return string(b)
}

// PathSegment returns a directory-name segment over [A-Za-z0-9._-] that is
// neither "." nor "..".
func PathSegment(r *rand.Rand) string {
	for {
		s := str(r, wordChars+".-", 1, 8)
		if s != "." && s != ".." {
			return s
		}
	}
}

var hostileComponents = []string{"repositories", "blobs", "uploads", "v2", "docker", "registry", "data", "current", "link", "tags", "sha256", "layers", "manifests", "revisions", "index"}

// DockerRepoComponent returns one path component of a Docker repository name:
// [a-z0-9]+ separated by one of ".", "_", "__", "-"+ (distribution grammar).
func DockerRepoComponent(r *rand.Rand) string {
	if r.Intn(6) == 0 {
		return hostileComponents[r.Intn(len(hostileComponents))]
	}
	var b strings.Builder
	b.WriteString(str(r, lowerAlnum, 1, 6))
	for k := r.Intn(3); k > 0; k-- {
		switch r.Intn(4) {
		case 0:
			b.WriteString(".")
		case 1:
			b.WriteString("_")
		case 2:
			b.WriteString("__")
		case 3:
			b.WriteString(strings.Repeat("-", 1+r.Intn(2)))
		}
		b.WriteString(str(r, lowerAlnum, 1, 5))
	}
	return b.String()
}

// DockerRepo returns a valid (possibly nested) Docker repository name.
func DockerRepo(r *rand.Rand) string {
	n := 1 + r.Intn(4)
	parts := make([]string, n)
	for i := range parts {
		parts[i] = DockerRepoComponent(r)
	}
	return strings.Join(parts, "/")
}

var hostileTags = []string{"_uploads", "_manifests", "_layers", "current", "link", "latest", "tags", "data", "v1.2-rc_3", "_", "index", "sha256"}

// DockerTag returns a valid Docker tag: [A-Za-z0-9_][A-Za-z0-9_.-]{0,n}.
func DockerTag(r *rand.Rand) string {
	if r.Intn(5) == 0 {
		return hostileTags[r.Intn(len(hostileTags))]
	}
	return str(r, wordChars, 1, 1) + str(r, wordChars+".-", 0, 14)
}

// IdentityName returns a flat or nested name over [A-Za-z0-9._-] with no
// empty, "." or ".." segments.
func IdentityName(r *rand.Rand) string {
	n := 1 + r.Intn(3)
	parts := make([]string, n)
	for i := range parts {
		parts[i] = PathSegment(r)
	}
	return strings.Join(parts, "/")
}
