package gen

import (
	"encoding/binary"
	"math/rand"

	"verif/harness/internal/model"
)

// LRUHistoryConfig shapes a generated blob-store history (C07, C08).
type LRUHistoryConfig struct {
	Keys     int // size of the key space (the last key is reserved as drain probe)
	Ops      int
	Capacity uint64
	Kinds    []model.MDKind
	Caps     model.Caps
	// Profile biases the op mix: 0 balanced, 1 eviction-heavy (many complete
	// blobs, opens, tight creates), 2 metadata/scope-heavy, 3 handle-heavy
	// (retained handles across evictions), 4 ban/clean-heavy.
	Profile int
}

type weighted struct {
	kind string
	w    int
}

func pick(r *rand.Rand, ws []weighted) string {
	t := 0
	for _, w := range ws {
		t += w.w
	}
	x := r.Intn(t)
	for _, w := range ws {
		if x < w.w {
			return w.kind
		}
		x -= w.w
	}
	return ws[0].kind
}

// LRUMDValue generates a legal value for a metadata kind.
func LRUMDValue(r *rand.Rand, k model.MDKind) []byte {
	switch k.Suffix {
	case "_persist":
		if r.Intn(2) == 0 {
			return []byte("true")
		}
		return []byte("false")
	case "_last_access_time":
		b := make([]byte, 8)
		binary.PutVarint(b, 1600000000+int64(r.Intn(100000000)))
		return b
	}
	n := r.Intn(12)
	if r.Intn(8) == 0 {
		n = 0
	}
	return Bytes(r, n)
}

// LRUHistory generates one symbolic history.
func LRUHistory(r *rand.Rand, c LRUHistoryConfig) []model.Op {
	mix := []weighted{
		{"create", 18}, {"complete", 14}, {"open", 11}, {"delete", 4}, {"ban", 4}, {"unban", 4},
		{"setmd", 7}, {"getmd", 2}, {"delmd", 2}, {"listmd", 1}, {"writeatmd", 2},
		{"clean", 2}, {"stat", 2}, {"has", 1}, {"list", 1}, {"faultcreate", 2},
		{"hread", 2}, {"hreadat", 3}, {"hwrite", 2}, {"hwriteat", 2}, {"hseek", 2}, {"hsize", 1},
	}
	switch c.Profile {
	case 1:
		mix = []weighted{
			{"create", 26}, {"complete", 22}, {"open", 20}, {"delete", 2}, {"ban", 3}, {"unban", 3},
			{"setmd", 2}, {"clean", 1}, {"stat", 1}, {"faultcreate", 2}, {"hreadat", 2}, {"hwriteat", 1},
		}
	case 2:
		mix = []weighted{
			{"create", 14}, {"complete", 10}, {"open", 6}, {"delete", 4}, {"ban", 2}, {"unban", 2},
			{"setmd", 20}, {"getmd", 8}, {"delmd", 6}, {"listmd", 4}, {"writeatmd", 6},
			{"stat", 5}, {"has", 3}, {"list", 2}, {"clean", 1},
		}
	case 3:
		mix = []weighted{
			{"create", 20}, {"complete", 14}, {"open", 12}, {"delete", 6}, {"ban", 1}, {"unban", 1},
			{"hread", 8}, {"hreadat", 10}, {"hwrite", 7}, {"hwriteat", 7}, {"hseek", 6}, {"hsize", 5},
			{"setmd", 1},
		}
	case 4:
		mix = []weighted{
			{"create", 18}, {"complete", 14}, {"open", 8}, {"delete", 3}, {"ban", 12}, {"unban", 9},
			{"clean", 9}, {"setmd", 3}, {"stat", 1}, {"faultcreate", 2}, {"hreadat", 1},
		}
	}
	var filtered []weighted
	for _, w := range mix {
		switch {
		case w.kind == "clean" && !c.Caps.Clean,
			w.kind == "writeatmd" && !c.Caps.WriteAtMD,
			w.kind == "faultcreate" && !c.Caps.CreateFault:
			continue
		}
		filtered = append(filtered, w)
	}
	nk := c.Keys - 1 // last key = probe
	ops := make([]model.Op, 0, c.Ops)
	for len(ops) < c.Ops {
		op := model.Op{Kind: pick(r, filtered), Key: r.Intn(nk)}
		// scope: mostly any
		switch r.Intn(10) {
		case 0, 1:
			op.Scope = model.ScopeComplete
		case 2:
			op.Scope = model.ScopeIncomplete
		}
		switch op.Kind {
		case "create", "faultcreate":
			op.Scope = 0
			// create: 0,1 front to back; 2 tail only (the head stays unwritten);
			// 3 tail then head. faultcreate: which fault is planted.
			op.Variant = r.Intn(2)
			if op.Kind == "create" {
				op.Variant = []int{0, 1, 2, 2, 3}[r.Intn(5)]
			}
			switch x := r.Intn(100); {
			case x < 6:
				op.SizeSpec, op.Size = "abs", 0
			case x < 16:
				op.SizeSpec = "free"
			case x < 28:
				op.SizeSpec = "free+1"
			case x < 32:
				op.SizeSpec = "free-1"
			case x < 35:
				op.SizeSpec = "cap"
			case x < 38:
				op.SizeSpec = "cap+1"
			case x < 46:
				op.SizeSpec = "evict1"
			case x < 49:
				op.SizeSpec = "evictall"
			case x < 52:
				op.SizeSpec = "evictall+1"
			case x < 85:
				op.SizeSpec, op.Size = "abs", 1+uint64(r.Int63n(int64(c.Capacity/3+1)))
			default:
				op.SizeSpec, op.Size = "abs", uint64(r.Int63n(int64(c.Capacity+2)))
			}
			// content length: usually the reserved size, sometimes shorter,
			// longer (the store accounts the declared size) or empty
			switch x := r.Intn(10); {
			case x < 6:
				op.WriteLen = -1
			case x < 7:
				op.WriteLen = 0
			default:
				op.WriteLen = r.Intn(40)
			}
			if op.Kind == "create" && r.Intn(3) > 0 && len(ops)+1 < c.Ops && c.Profile != 2 {
				// most creations are completed right away so that the evict
				// queue fills up
				ops = append(ops, op)
				op = model.Op{Kind: "complete", Key: op.Key}
			}
		case "complete":
			op.Scope = 0
		case "setmd":
			op.MD = r.Intn(len(c.Kinds))
			op.Data = LRUMDValue(r, c.Kinds[op.MD])
		case "getmd", "delmd":
			op.MD = r.Intn(len(c.Kinds))
		case "writeatmd":
			op.MD = r.Intn(len(c.Kinds))
			op.Data = Bytes(r, 1+r.Intn(4))
			op.Off = int64(r.Intn(14))
		case "clean":
			op.Scope = 0
			op.Respect = r.Intn(3) > 0
			switch x := r.Intn(12); {
			case x == 0:
				op.Target = -1 - r.Intn(3)
			case x == 1:
				op.Target = 100 + r.Intn(3)
			case x == 2:
				op.Target = 0
			case x == 3:
				op.Target = 99
			default:
				op.Target = r.Intn(100)
			}
		case "hread", "hreadat":
			op.H = r.Intn(1 << 16)
			op.Len = 1 + r.Intn(24)
			op.Off = int64(r.Intn(64))
		case "hwrite", "hwriteat":
			op.H = r.Intn(1 << 16)
			op.Data = Bytes(r, 1+r.Intn(12))
			op.Off = int64(r.Intn(64))
			if op.Kind == "hwriteat" && r.Intn(4) == 0 {
				op.Variant = 1 // past the end of what is written: leaves a gap
			}
		case "hseek":
			op.H = r.Intn(1 << 16)
			op.Whence = r.Intn(3)
			op.Off = int64(r.Intn(64))
		case "hsize":
			op.H = r.Intn(1 << 16)
		}
		ops = append(ops, op)
	}
	return ops
}
