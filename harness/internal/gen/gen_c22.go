package gen

// Generators for C22: hex keys that drive hrw.UInt64ToFloat64 through its
// re-hash-on-zero branch for a chosen node label.
//
// hrw scores a node with murmur3.New64 over keyBytes||label (the first word of
// MurmurHash3_x64_128, seed 0) and re-hashes when the low 53 bits of that word
// are zero. Random keys never get there (2^-53), but every step of the hash is
// a bijection on its 128-bit state, so a 16-byte block of the key can be solved
// for any wanted result.

import (
	"encoding/binary"
	"encoding/hex"
	"math/bits"
	"math/rand"

	"github.com/spaolacci/murmur3"
)

const (
	m3c1 = uint64(0x87c37b91114253d5)
	m3c2 = uint64(0x4cf5ad432745937f)
	m3a1 = uint64(0x52dce729)
	m3a2 = uint64(0x38495ab5)
)

// inv64 is the multiplicative inverse of odd a modulo 2^64 (Newton iteration).
func inv64(a uint64) uint64 {
	x := a
	for i := 0; i < 6; i++ {
		x *= 2 - a*x
	}
	return x
}

func m3mix1(k uint64) uint64 { k *= m3c1; k = bits.RotateLeft64(k, 31); k *= m3c2; return k }
func m3mix2(k uint64) uint64 { k *= m3c2; k = bits.RotateLeft64(k, 33); k *= m3c1; return k }

func m3unfmix(k uint64) uint64 {
	k ^= k >> 33
	k *= inv64(0xc4ceb9fe1a85ec53)
	k ^= k >> 33
	k *= inv64(0xff51afd7ed558ccd)
	k ^= k >> 33
	return k
}

// m3block applies one 16-byte block to the state.
func m3block(h1, h2 uint64, b []byte) (uint64, uint64) {
	k1 := binary.LittleEndian.Uint64(b[0:])
	k2 := binary.LittleEndian.Uint64(b[8:])
	h1 ^= m3mix1(k1)
	h1 = bits.RotateLeft64(h1, 27)
	h1 += h2
	h1 = h1*5 + m3a1
	h2 ^= m3mix2(k2)
	h2 = bits.RotateLeft64(h2, 31)
	h2 += h1
	h2 = h2*5 + m3a2
	return h1, h2
}

// m3unblock is the inverse of m3block for a known block.
func m3unblock(n1, n2 uint64, b []byte) (uint64, uint64) {
	k1 := binary.LittleEndian.Uint64(b[0:])
	k2 := binary.LittleEndian.Uint64(b[8:])
	inv5 := inv64(5)
	h2 := bits.RotateLeft64((n2-m3a2)*inv5-n1, -31) ^ m3mix2(k2)
	h1 := bits.RotateLeft64((n1-m3a1)*inv5-h2, -27) ^ m3mix1(k1)
	return h1, h2
}

// MurmurKeyForHash returns an even-length hex key = hex(prefix) + 32 crafted hex
// digits such that murmur3.Sum64(keyBytes || label) == want. prefix must be a
// multiple of 16 bytes (it may be empty); label may have any length. ok is
// false if the self-check against the real murmur3 package fails.
func MurmurKeyForHash(prefix []byte, label string, want uint64, other uint64) (key string, ok bool) {
	if len(prefix)%16 != 0 {
		return "", false
	}
	lab := []byte(label)
	total := uint64(len(prefix) + 16 + len(lab))

	// backwards from the result: finalisation
	h2 := other - want // final: h1 += h2; h2 += h1  => h2_before = h2_final - h1_final
	h1 := want - h2
	h1, h2 = m3unfmix(h1), m3unfmix(h2)
	h2 -= h1
	h1 -= h2
	h1 ^= total
	h2 ^= total
	// tail of the label
	nblocks := len(lab) / 16
	tail := lab[nblocks*16:]
	var t1, t2 uint64
	for i := len(tail) - 1; i >= 8; i-- {
		t2 ^= uint64(tail[i]) << (8 * uint(i-8))
	}
	if len(tail) > 8 {
		h2 ^= m3mix2(t2)
	}
	for i := 7; i >= 0; i-- {
		if i < len(tail) {
			t1 ^= uint64(tail[i]) << (8 * uint(i))
		}
	}
	if len(tail) > 0 {
		h1 ^= m3mix1(t1)
	}
	// whole blocks of the label, last to first
	for b := nblocks - 1; b >= 0; b-- {
		h1, h2 = m3unblock(h1, h2, lab[b*16:b*16+16])
	}
	// forwards over the prefix
	var p1, p2 uint64
	for b := 0; b < len(prefix)/16; b++ {
		p1, p2 = m3block(p1, p2, prefix[b*16:b*16+16])
	}
	// solve the crafted block: (p1,p2) --block--> (h1,h2)
	inv5 := inv64(5)
	mm2 := bits.RotateLeft64((h2-m3a2)*inv5-h1, -31) ^ p2
	mm1 := bits.RotateLeft64((h1-m3a1)*inv5-p2, -27) ^ p1
	k1 := inv64(m3c1) * bits.RotateLeft64(mm1*inv64(m3c2), -31)
	k2 := inv64(m3c2) * bits.RotateLeft64(mm2*inv64(m3c1), -33)
	blk := make([]byte, 16)
	binary.LittleEndian.PutUint64(blk[0:], k1)
	binary.LittleEndian.PutUint64(blk[8:], k2)
	kb := append(append([]byte(nil), prefix...), blk...)
	if murmur3.Sum64(append(append([]byte(nil), kb...), lab...)) != want {
		return "", false
	}
	return hex.EncodeToString(kb), true
}

// MurmurRehashKey returns a hex key (32, 64 or 96 digits) for which
// murmur3-64(key||label) has its low 53 bits all zero, i.e. for which
// hrw.UInt64ToFloat64 takes its re-hash branch when scoring that label.
func MurmurRehashKey(r *rand.Rand, label string) (string, bool) {
	prefix := Bytes(r, 16*r.Intn(3))
	want := uint64(r.Intn(2048)) << 53
	return MurmurKeyForHash(prefix, label, want, r.Uint64())
}

// MurmurLow53Zero reports whether scoring label for key takes the re-hash branch.
func MurmurLow53Zero(key, label string) bool {
	kb, err := hex.DecodeString(key)
	if err != nil {
		return false
	}
	return murmur3.Sum64(append(kb, []byte(label)...))&(1<<53-1) == 0
}
