package model

import (
	"bytes"
	"fmt"
	"io"
	"sort"
)

// Handle is an open blob handle of the store under test.
type Handle interface {
	Read(p []byte) (int, error)
	ReadAt(p []byte, off int64) (int, error)
	Write(p []byte) (int, error)
	WriteAt(p []byte, off int64) (int, error)
	Seek(off int64, whence int) (int64, error)
	Size() int64
	Close() error
}

// Subject adapts a real blob store (disk.Store, memory.Store) to the monitor.
type Subject interface {
	Create(key string, size uint64) (Handle, error)
	Open(scope Scope, key string) (Handle, error)
	Has(scope Scope, key string) (inStore, inScope bool)
	Stat(scope Scope, key string) (int64, error)
	MarkComplete(key string) error
	Delete(scope Scope, key string) error
	List(scope Scope) []string
	Ban(scope Scope, key string) error
	Unban(scope Scope, key string) error
	SetMD(scope Scope, key, suffix string, val []byte) error
	GetMD(scope Scope, key, suffix string) ([]byte, bool, error)
	DeleteMD(scope Scope, key, suffix string) error
	ListMD(scope Scope, key string) ([]string, error)
	WriteAtMD(scope Scope, key, suffix string, p []byte, off int64) error
	Clean(target int, respectBan bool) (int, error)
	// Reserved returns the store's own reserved-bytes figure (usage gauge).
	Reserved() (uint64, bool)
	// InjectCreateFault arranges that the next Create(key) hits an I/O error
	// after admission; the returned func removes the fault. ok=false when the
	// subject cannot inject faults.
	InjectCreateFault(key string, variant int) (undo func(), ok bool)
	Classify(err error) ErrClass
}

// Caps says which parts of the op alphabet a subject supports.
type Caps struct {
	Clean            bool // Clean(target, respectBan) exists
	WriteAtMD        bool
	CreateFault      bool
	StaleHandlesFail bool // ops on handles of evicted/deleted blobs must return ErrEvicted
	UtilProbe        bool // Clean(-1) reports the reserved utilisation without side effects
}

// MDKind is one metadata type of the alphabet.
type MDKind struct {
	Suffix  string
	Movable bool
	Raw     bool // arbitrary bytes allowed (WriteAtMD only on raw kinds)
}

// Op is one symbolic operation of a history. Sizes are resolved against the
// model state when the op runs, so that a history is a function of the seed.
type Op struct {
	Kind     string `json:"k"`
	Key      int    `json:"key,omitempty"`
	Scope    Scope  `json:"sc,omitempty"`
	SizeSpec string `json:"sz,omitempty"` // abs|free|free+1|free-1|cap|cap+1|evict1
	Size     uint64 `json:"n,omitempty"`
	WriteLen int    `json:"wl,omitempty"` // bytes written after a successful create; -1 = reserved size
	MD       int    `json:"md,omitempty"`
	Data     []byte `json:"d,omitempty"`
	Off      int64  `json:"off,omitempty"`
	Len      int    `json:"len,omitempty"`
	Whence   int    `json:"wh,omitempty"`
	Target   int    `json:"t,omitempty"`
	Respect  bool   `json:"rb,omitempty"`
	H        int    `json:"h,omitempty"` // handle selector
	Variant  int    `json:"v,omitempty"`
}

// Reporter receives what the differ observes.
type Reporter interface {
	Violation(signature string, witness interface{})
	Count(name string, n int64)
}

type hinfo struct {
	h      Handle
	key    string
	gen    int
	off    int64
	closed bool
}

// Differ drives one history against a subject and the model.
type Differ struct {
	S     Subject
	M     *LRUStore
	Caps  Caps
	Keys  []string
	Kinds []MDKind
	Rep   Reporter

	handles []*hinfo          // retained test handles (never dropped, closed at the end)
	obs     map[string]*hinfo // one observation handle per live blob (from Create)
	Trace   []string
	Failed  bool

	fullSweep bool

	// what the history exercised (for the non-triviality rule)
	Evictions, StaleOps, Cleans, CleanDeletes, FailedCreates, Faults, MDDrops, ScopeHides, Gaps int
}

// NewDiffer builds a differ over an empty store of the given capacity.
func NewDiffer(s Subject, capacity uint64, caps Caps, keys []string, kinds []MDKind, rep Reporter) *Differ {
	return &Differ{S: s, M: NewLRUStore(capacity), Caps: caps, Keys: keys, Kinds: kinds, Rep: rep, obs: map[string]*hinfo{}}
}

// Content is the generation-tagged content of a blob: every byte depends on
// (key, generation, position).
func Content(keyIdx, gen, n int) []byte {
	b := make([]byte, n)
	for i := range b {
		x := uint64(keyIdx+1)<<40 ^ uint64(gen)<<20 ^ uint64(i)
		x ^= x >> 33
		x *= 0xff51afd7ed558ccd
		x ^= x >> 29
		b[i] = byte(x)
	}
	return b
}

func (d *Differ) fail(sig string, op Op, detail map[string]interface{}) {
	d.Failed = true
	w := map[string]interface{}{"op": op, "trace": d.Trace, "model_before_or_at": d.M.Snapshot()}
	for k, v := range detail {
		w[k] = v
	}
	d.Rep.Violation(sig, w)
}

func (d *Differ) resolveSize(op Op) uint64 {
	switch op.SizeSpec {
	case "free":
		return d.M.Free()
	case "free+1":
		return d.M.Free() + 1
	case "free-1":
		if d.M.Free() == 0 {
			return 0
		}
		return d.M.Free() - 1
	case "cap":
		return d.M.Capacity
	case "cap+1":
		return d.M.Capacity + 1
	case "evict1":
		// needs exactly the head of the queue to go (when there is one)
		if len(d.M.Queue) > 0 {
			return d.M.Free() + 1
		}
		return d.M.Free()
	case "evictall":
		return d.M.Free() + d.M.EvictableBytes()
	case "evictall+1":
		return d.M.Free() + d.M.EvictableBytes() + 1
	}
	return op.Size
}

func sortedCopy(s []string) []string {
	o := append([]string{}, s...)
	sort.Strings(o)
	return o
}

func equalStrings(a, b []string) bool {
	if len(a) != len(b) {
		return false
	}
	for i := range a {
		if a[i] != b[i] {
			return false
		}
	}
	return true
}

// vanished returns model keys missing from the store (sorted) and store keys
// unknown to the model.
func (d *Differ) keyDiff() (vanished, appeared []string) {
	real := map[string]bool{}
	for _, k := range d.S.List(ScopeAny) {
		real[k] = true
		if _, ok := d.M.Blobs[k]; !ok {
			appeared = append(appeared, k)
		}
	}
	for k := range d.M.Blobs {
		if !real[k] {
			vanished = append(vanished, k)
		}
	}
	sort.Strings(vanished)
	sort.Strings(appeared)
	return
}

// dropObs forgets the observation handles of vanished blobs. Where stale
// handles have specified behaviour (memory store) they stay in the test pool.
func (d *Differ) dropObs(keys []string) {
	for _, k := range keys {
		if o, ok := d.obs[k]; ok {
			delete(d.obs, k)
			if !d.Caps.StaleHandlesFail && !o.closed {
				o.h.Close()
				o.closed = true
			}
		}
	}
}

// Step executes one op on the store and the model and compares everything
// observable. It returns false once the history must stop.
func (d *Differ) Step(op Op) bool {
	if d.Failed {
		return false
	}
	key := ""
	if op.Key >= 0 && op.Key < len(d.Keys) {
		key = d.Keys[op.Key]
	}
	d.Trace = append(d.Trace, fmt.Sprintf("%d:%s", len(d.Trace), opString(op, key)))
	d.Rep.Count("op_"+op.Kind, 1)

	switch op.Kind {
	case "create", "faultcreate":
		d.stepCreate(op, key)
	case "open":
		d.stepOpen(op, key)
	case "complete":
		before := 0
		if b, ok := d.M.Blobs[key]; ok && !b.Complete {
			for _, md := range b.MD {
				if !md.Movable {
					before++
				}
			}
		}
		want := d.M.MarkComplete(key)
		got := d.S.Classify(d.S.MarkComplete(key))
		if got != want {
			d.fail("markcomplete/error-class", op, map[string]interface{}{"got": got, "want": want})
		}
		d.MDDrops += before
	case "delete":
		want := d.M.Delete(op.Scope, key)
		got := d.S.Classify(d.S.Delete(op.Scope, key))
		if got != want {
			d.fail("delete/error-class", op, map[string]interface{}{"got": got, "want": want})
		}
		if want == OK {
			d.dropObs([]string{key})
			d.checkReserved(op)
		}
		if want == ErrOutOfScope {
			d.ScopeHides++
		}
	case "ban":
		want := d.M.Ban(op.Scope, key)
		got := d.S.Classify(d.S.Ban(op.Scope, key))
		if got != want {
			d.fail("baneviction/error-class", op, map[string]interface{}{"got": got, "want": want})
		}
		if want == ErrOutOfScope {
			d.ScopeHides++
		}
	case "unban":
		want := d.M.Unban(op.Scope, key)
		got := d.S.Classify(d.S.Unban(op.Scope, key))
		if got != want {
			d.fail("unbaneviction/error-class", op, map[string]interface{}{"got": got, "want": want})
		}
		if want == ErrOutOfScope {
			d.ScopeHides++
		}
	case "setmd":
		k := d.Kinds[op.MD%len(d.Kinds)]
		want := d.M.SetMD(op.Scope, key, k.Suffix, k.Movable, op.Data)
		got := d.S.Classify(d.S.SetMD(op.Scope, key, k.Suffix, op.Data))
		if got != want {
			d.fail("setmetadata/error-class", op, map[string]interface{}{"got": got, "want": want, "suffix": k.Suffix})
		}
		if want == ErrOutOfScope {
			d.ScopeHides++
		}
	case "getmd":
		k := d.Kinds[op.MD%len(d.Kinds)]
		d.compareMD(op, op.Scope, key, k.Suffix)
	case "delmd":
		k := d.Kinds[op.MD%len(d.Kinds)]
		want := d.M.DeleteMD(op.Scope, key, k.Suffix)
		got := d.S.Classify(d.S.DeleteMD(op.Scope, key, k.Suffix))
		if got != want {
			d.fail("deletemetadata/error-class", op, map[string]interface{}{"got": got, "want": want, "suffix": k.Suffix})
		}
	case "listmd":
		d.compareListMD(op, op.Scope, key)
	case "writeatmd":
		if !d.Caps.WriteAtMD {
			break
		}
		k := d.Kinds[op.MD%len(d.Kinds)]
		if !k.Raw {
			break
		}
		want := d.M.WriteAtMD(op.Scope, key, k.Suffix, op.Data, op.Off)
		got := d.S.Classify(d.S.WriteAtMD(op.Scope, key, k.Suffix, op.Data, op.Off))
		if got != want {
			d.fail("writeatmetadata/error-class", op, map[string]interface{}{"got": got, "want": want, "suffix": k.Suffix})
		}
	case "clean":
		d.stepClean(op)
	case "has", "stat", "list":
		// pure observations: the full comparison below covers them for every
		// key and scope; the op only adds the scoped Stat of its key.
		if _, c := d.M.Stat(op.Scope, key); c == ErrOutOfScope {
			d.ScopeHides++
		}
		d.compareStat(op, op.Scope, key)
	case "hread", "hreadat", "hwrite", "hwriteat", "hseek", "hsize":
		d.stepHandle(op)
	default:
		panic("unknown op kind " + op.Kind)
	}
	if d.Failed {
		return false
	}
	d.compareAll(op, key)
	return !d.Failed
}

func opString(op Op, key string) string {
	switch op.Kind {
	case "create", "faultcreate":
		return fmt.Sprintf("%s(%s,%s/%d,wl=%d,v=%d)", op.Kind, key, op.SizeSpec, op.Size, op.WriteLen, op.Variant)
	case "clean":
		return fmt.Sprintf("clean(%d,%v)", op.Target, op.Respect)
	case "setmd", "getmd", "delmd", "writeatmd":
		return fmt.Sprintf("%s(%s,%s,md%d,%x@%d)", op.Kind, op.Scope, key, op.MD, op.Data, op.Off)
	case "hread", "hreadat", "hwrite", "hwriteat", "hseek", "hsize":
		return fmt.Sprintf("%s(h%d,off=%d,len=%d,wh=%d,%x)", op.Kind, op.H, op.Off, op.Len, op.Whence, op.Data)
	}
	return fmt.Sprintf("%s(%s,%s)", op.Kind, op.Scope, key)
}

func (d *Differ) checkReserved(op Op) {
	if got, ok := d.S.Reserved(); ok && got != d.M.Used {
		d.fail("reserved/not-sum-of-live-sizes", op, map[string]interface{}{"store_reserved": got, "model_reserved": d.M.Used})
	}
}

func (d *Differ) stepCreate(op Op, key string) {
	size := d.resolveSize(op)
	fault := false
	var undo func()
	if op.Kind == "faultcreate" {
		if _, live := d.M.Blobs[key]; !live && d.Caps.CreateFault {
			if u, ok := d.S.InjectCreateFault(key, op.Variant); ok {
				fault, undo = true, u
			}
		}
	}
	plan := d.M.PlanCreate(key, size)
	h, err := d.S.Create(key, size)
	if undo != nil {
		undo()
	}
	got := d.S.Classify(err)
	if fault && got == ErrOther {
		got = ErrFault
	}
	vanished, appeared := d.keyDiff()
	// the new key itself is "appeared" on success
	var extra []string
	for _, k := range appeared {
		if !(k == key && err == nil) {
			extra = append(extra, k)
		}
	}
	if len(extra) > 0 {
		d.fail("state/unknown-key-appeared", op, map[string]interface{}{"keys": extra})
		return
	}
	d.Trace[len(d.Trace)-1] += fmt.Sprintf(" size=%d -> %s evicted=%v", size, got, vanished)
	if s := d.M.CheckCreate(key, size, got, vanished, fault); s != "" {
		d.fail("create/"+s, op, map[string]interface{}{
			"size": size, "got": got, "err": fmt.Sprint(err), "vanished": vanished, "plan": plan, "fault": fault})
		if h != nil {
			h.Close()
		}
		return
	}
	d.dropObs(vanished)
	d.Evictions += len(vanished)
	d.Rep.Count("evictions", int64(len(vanished)))
	if fault {
		d.Faults++
	}
	if got != OK {
		if got == ErrNoSpace {
			d.FailedCreates++
			if len(vanished) > 0 {
				d.Rep.Count("needless_evictions_on_refused_create", int64(len(vanished)))
			}
		}
		return
	}
	d.checkReserved(op)
	b := d.M.Blobs[key]
	// the Create handle doubles as observation handle (ReadAt only, which
	// does not touch the LRU order) and as a retained test handle
	hi := &hinfo{h: h, key: key, gen: b.Gen}
	d.obs[key] = hi
	d.handles = append(d.handles, hi)
	// generation-tagged content
	wl := op.WriteLen
	if wl < 0 {
		wl = int(size)
	}
	if wl > 4096 {
		wl = 4096
	}
	if wl > 0 {
		content := Content(op.Key, b.Gen, wl)
		cut := wl / 2
		switch {
		case op.Variant == 2 && cut > 0:
			// out of order, as a piece writer does: only the tail is written,
			// the head stays unwritten (reads as zeros) until a later WriteAt
			n2, e2 := h.WriteAt(content[cut:], int64(cut))
			if e2 != nil || n2 != wl-cut {
				d.fail("handle/write-on-fresh-blob-failed", op, map[string]interface{}{"e2": fmt.Sprint(e2), "n2": n2})
				return
			}
			b.WriteBlobAt(content[cut:], int64(cut))
			d.Gaps++
		case op.Variant == 3 && cut > 0:
			// tail first, then the head
			n2, e2 := h.WriteAt(content[cut:], int64(cut))
			n1, e1 := h.WriteAt(content[:cut], 0)
			if e1 != nil || e2 != nil || n1 != cut || n2 != wl-cut {
				d.fail("handle/write-on-fresh-blob-failed", op, map[string]interface{}{"e1": fmt.Sprint(e1), "e2": fmt.Sprint(e2), "n1": n1, "n2": n2})
				return
			}
			b.WriteBlobAt(content, 0)
		default:
			// front to back: Write then WriteAt for the tail
			n1, e1 := h.Write(content[:cut])
			n2, e2 := h.WriteAt(content[cut:], int64(cut))
			if e1 != nil || e2 != nil || n1 != cut || n2 != wl-cut {
				d.fail("handle/write-on-fresh-blob-failed", op, map[string]interface{}{"e1": fmt.Sprint(e1), "e2": fmt.Sprint(e2), "n1": n1, "n2": n2})
				return
			}
			b.WriteBlobAt(content, 0)
			hi.off = int64(cut)
		}
	}
}

func (d *Differ) stepOpen(op Op, key string) {
	want := d.M.Open(op.Scope, key)
	h, err := d.S.Open(op.Scope, key)
	got := d.S.Classify(err)
	if got != want {
		d.fail("open/error-class", op, map[string]interface{}{"got": got, "want": want, "err": fmt.Sprint(err)})
		return
	}
	if want == ErrOutOfScope {
		d.ScopeHides++
	}
	if want != OK {
		return
	}
	b := d.M.Blobs[key]
	buf, rerr := io.ReadAll(h)
	if rerr != nil || !bytes.Equal(buf, b.Bytes) {
		d.fail("open/bytes-mismatch", op, map[string]interface{}{
			"got": fmt.Sprintf("%x", buf), "want": fmt.Sprintf("%x", b.Bytes), "err": fmt.Sprint(rerr)})
		return
	}
	if sz := h.Size(); sz != int64(len(b.Bytes)) {
		d.fail("open/handle-size-mismatch", op, map[string]interface{}{"got": sz, "want": len(b.Bytes)})
		return
	}
	hi := &hinfo{h: h, key: key, gen: b.Gen, off: int64(len(b.Bytes))}
	d.handles = append(d.handles, hi)
}

func (d *Differ) stepClean(op Op) {
	if !d.Caps.Clean {
		return
	}
	util, err := d.S.Clean(op.Target, op.Respect)
	got := d.S.Classify(err)
	if err != nil && (op.Target < 0 || op.Target >= 100) {
		got = ErrBadArg
	}
	vanished, appeared := d.keyDiff()
	if len(appeared) > 0 {
		d.fail("state/unknown-key-appeared", op, map[string]interface{}{"keys": appeared})
		return
	}
	d.Trace[len(d.Trace)-1] += fmt.Sprintf(" -> %s util=%d deleted=%v", got, util, vanished)
	if s := d.M.CheckClean(op.Target, op.Respect, vanished, util, got); s != "" {
		d.fail("clean/"+s, op, map[string]interface{}{"got": got, "err": fmt.Sprint(err), "util": util, "vanished": vanished})
		return
	}
	d.dropObs(vanished)
	d.Cleans++
	d.CleanDeletes += len(vanished)
	d.Rep.Count("clean_deletions", int64(len(vanished)))
	// (the usage gauge is not refreshed by Clean's eviction phase; the
	// reserved figure is compared through the utilisation Clean reports)
}

// stale reports whether a retained handle's blob is gone (evicted, deleted or
// replaced by a newer generation).
func (d *Differ) stale(hi *hinfo) bool { return d.M.Gen(hi.key) != hi.gen }

func (d *Differ) stepHandle(op Op) {
	if len(d.handles) == 0 {
		return
	}
	hi := d.handles[op.H%len(d.handles)]
	if hi.closed {
		return
	}
	if d.stale(hi) {
		if !d.Caps.StaleHandlesFail {
			// disk handles are plain file descriptors; nothing is specified
			// for them after eviction. Close and forget.
			hi.h.Close()
			hi.closed = true
			return
		}
		d.staleOp(op, hi)
		return
	}
	b := d.M.Blobs[hi.key]
	cur := int64(len(b.Bytes))
	switch op.Kind {
	case "hsize":
		if got := hi.h.Size(); got != cur {
			d.fail("handle/size-mismatch", op, map[string]interface{}{"got": got, "want": cur})
		}
	case "hseek":
		// only targets inside the written extent (3.40)
		var target int64
		switch op.Whence {
		case io.SeekStart:
			target = op.Off % (cur + 1)
		case io.SeekCurrent:
			target = op.Off % (cur + 1)
		case io.SeekEnd:
			target = op.Off % (cur + 1)
		}
		var arg int64
		switch op.Whence {
		case io.SeekStart:
			arg = target
		case io.SeekCurrent:
			arg = target - hi.off
		case io.SeekEnd:
			arg = target - cur
		}
		got, err := hi.h.Seek(arg, op.Whence)
		if err != nil || got != target {
			d.fail("handle/seek-mismatch", op, map[string]interface{}{"got": got, "want": target, "err": fmt.Sprint(err), "arg": arg})
			return
		}
		hi.off = target
	case "hread":
		if op.Len <= 0 {
			return
		}
		p := make([]byte, op.Len)
		n, err := hi.h.Read(p)
		want := []byte{}
		if hi.off < cur {
			want = b.Bytes[hi.off:]
			if len(want) > op.Len {
				want = want[:op.Len]
			}
		}
		// EOF signalling is not compared (3.40); a short read that is not at
		// the end would be.
		if n != len(want) || !bytes.Equal(p[:n], want) || (err != nil && err != io.EOF) {
			d.fail("handle/read-mismatch", op, map[string]interface{}{"n": n, "got": fmt.Sprintf("%x", p[:n]), "want": fmt.Sprintf("%x", want), "err": fmt.Sprint(err), "off": hi.off})
			return
		}
		hi.off += int64(n)
	case "hreadat":
		if op.Len <= 0 {
			return
		}
		off := op.Off % (cur + 1)
		p := make([]byte, op.Len)
		n, err := hi.h.ReadAt(p, off)
		want := b.Bytes[off:]
		if len(want) > op.Len {
			want = want[:op.Len]
		}
		if n != len(want) || !bytes.Equal(p[:n], want) || (err != nil && err != io.EOF) {
			d.fail("handle/readat-mismatch", op, map[string]interface{}{"n": n, "got": fmt.Sprintf("%x", p[:n]), "want": fmt.Sprintf("%x", want), "err": fmt.Sprint(err), "off": off})
		}
	case "hwrite":
		if len(op.Data) == 0 {
			return
		}
		n, err := hi.h.Write(op.Data)
		if err != nil || n != len(op.Data) {
			d.fail("handle/write-failed-on-live-blob", op, map[string]interface{}{"n": n, "err": fmt.Sprint(err)})
			return
		}
		b.WriteBlobAt(op.Data, hi.off)
		hi.off += int64(n)
	case "hwriteat":
		if len(op.Data) == 0 {
			return
		}
		// mostly inside or at the end of the written extent, sometimes past it:
		// the gap below the offset must read as zeros (non-empty writes only;
		// zero-length writes past the end are C12's)
		off := op.Off % (cur + 1)
		if op.Variant == 1 {
			off = cur + 1 + op.Off%24
		}
		n, err := hi.h.WriteAt(op.Data, off)
		if err != nil || n != len(op.Data) {
			d.fail("handle/writeat-failed-on-live-blob", op, map[string]interface{}{"n": n, "err": fmt.Sprint(err)})
			return
		}
		if off > cur {
			d.Gaps++
		}
		b.WriteBlobAt(op.Data, off)
	}
}

// staleOp exercises a handle whose blob was evicted or deleted: every
// operation must fail with the evicted error (Size: -1) and never hand out
// bytes.
func (d *Differ) staleOp(op Op, hi *hinfo) {
	d.StaleOps++
	d.Rep.Count("stale_handle_ops", 1)
	detail := func(extra map[string]interface{}) map[string]interface{} {
		extra["handle_key"] = hi.key
		extra["handle_gen"] = hi.gen
		extra["live_gen"] = d.M.Gen(hi.key)
		return extra
	}
	foreign := func(p []byte) string {
		if b, ok := d.M.Blobs[hi.key]; ok && len(p) > 0 && bytes.Contains(b.Bytes, p) {
			return "bytes-of-newer-generation"
		}
		return "stale-bytes"
	}
	switch op.Kind {
	case "hsize":
		if got := hi.h.Size(); got != -1 {
			d.fail("stale-handle/size-not-minus-one", op, detail(map[string]interface{}{"got": got}))
		}
	case "hseek":
		_, err := hi.h.Seek(0, op.Whence%3)
		if c := d.S.Classify(err); c != ErrEvicted {
			d.fail("stale-handle/seek-not-evicted-error", op, detail(map[string]interface{}{"class": c, "err": fmt.Sprint(err)}))
		}
	case "hread":
		n := op.Len
		if n <= 0 {
			n = 1
		}
		p := make([]byte, n)
		got, err := hi.h.Read(p)
		if c := d.S.Classify(err); c != ErrEvicted || got != 0 {
			d.fail("stale-handle/read-returned-"+foreign(p[:got]), op, detail(map[string]interface{}{"class": c, "err": fmt.Sprint(err), "n": got, "bytes": fmt.Sprintf("%x", p[:got])}))
		}
	case "hreadat":
		n := op.Len
		if n <= 0 {
			n = 1
		}
		p := make([]byte, n)
		got, err := hi.h.ReadAt(p, op.Off%8)
		if c := d.S.Classify(err); c != ErrEvicted || got != 0 {
			d.fail("stale-handle/readat-returned-"+foreign(p[:got]), op, detail(map[string]interface{}{"class": c, "err": fmt.Sprint(err), "n": got, "bytes": fmt.Sprintf("%x", p[:got])}))
		}
	case "hwrite", "hwriteat":
		data := op.Data
		if len(data) == 0 {
			data = []byte{0xEE}
		}
		var err error
		if op.Kind == "hwrite" {
			_, err = hi.h.Write(data)
		} else {
			_, err = hi.h.WriteAt(data, op.Off%8)
		}
		if c := d.S.Classify(err); c != ErrEvicted {
			d.fail("stale-handle/"+op.Kind[1:]+"-not-evicted-error", op, detail(map[string]interface{}{"class": c, "err": fmt.Sprint(err)}))
			return
		}
		// (the live generation's bytes are re-compared by compareAll)
	}
}

func (d *Differ) compareStat(op Op, scope Scope, key string) {
	wantN, want := d.M.Stat(scope, key)
	gotN, err := d.S.Stat(scope, key)
	got := d.S.Classify(err)
	if got != want || (want == OK && gotN != wantN) {
		d.fail("state/stat-mismatch", op, map[string]interface{}{"key": key, "scope": scope.String(), "got": got, "want": want, "got_size": gotN, "want_size": wantN})
	}
}

func (d *Differ) compareMD(op Op, scope Scope, key, suffix string) {
	wantV, wantOK, want := d.M.GetMD(scope, key, suffix)
	gotV, gotOK, err := d.S.GetMD(scope, key, suffix)
	got := d.S.Classify(err)
	if got != want || gotOK != wantOK || (wantOK && !bytes.Equal(gotV, wantV)) {
		sig := "metadata/read-not-last-value-set"
		if b, ok := d.M.Blobs[key]; ok && b.Complete && gotOK && !wantOK {
			for _, k := range d.Kinds {
				if k.Suffix == suffix && !k.Movable {
					sig = "metadata/non-movable-survived-completion"
				}
			}
		}
		d.fail(sig, op, map[string]interface{}{"key": key, "scope": scope.String(), "suffix": suffix,
			"got_class": got, "want_class": want, "got_present": gotOK, "want_present": wantOK,
			"got": fmt.Sprintf("%x", gotV), "want": fmt.Sprintf("%x", wantV), "err": fmt.Sprint(err)})
	}
}

func (d *Differ) compareListMD(op Op, scope Scope, key string) {
	wantL, want := d.M.ListMD(scope, key)
	gotL, err := d.S.ListMD(scope, key)
	got := d.S.Classify(err)
	gotL = sortedCopy(gotL)
	if got != want || (want == OK && !equalStrings(gotL, wantL)) {
		d.fail("metadata/list-mismatch", op, map[string]interface{}{"key": key, "scope": scope.String(), "got_class": got, "want_class": want, "got": gotL, "want": wantL})
	}
}

// compareAll compares every observable of every key with the model.
func (d *Differ) compareAll(op Op, opKey string) {
	if err := d.M.CheckInvariants(); err != nil {
		panic(err) // harness bug
	}
	for _, sc := range []Scope{ScopeAny, ScopeComplete, ScopeIncomplete} {
		got := sortedCopy(d.S.List(sc))
		want := d.M.List(sc)
		if !equalStrings(got, want) {
			sig := "state/list-mismatch"
			if sc == ScopeAny {
				v, a := d.keyDiff()
				if len(v) > 0 {
					sig = "state/blob-disappeared-without-delete-evict-clean"
				} else if len(a) > 0 {
					sig = "state/unknown-key-appeared"
				}
			} else {
				sig = "scope/list-does-not-hide-exactly-out-of-scope"
			}
			d.fail(sig, op, map[string]interface{}{"scope": sc.String(), "got": got, "want": want})
			return
		}
	}
	for _, key := range d.Keys {
		for _, sc := range []Scope{ScopeAny, ScopeComplete, ScopeIncomplete} {
			gi, gs := d.S.Has(sc, key)
			wi, ws := d.M.Has(sc, key)
			if gi != wi || gs != ws {
				d.fail("scope/has-mismatch", op, map[string]interface{}{"key": key, "scope": sc.String(), "got": []bool{gi, gs}, "want": []bool{wi, ws}})
				return
			}
		}
		d.compareStat(op, ScopeAny, key)
		if d.Failed {
			return
		}
		b, live := d.M.Blobs[key]
		// the op's key is compared in full after every step, the other keys
		// (Stat and bytes after every step) in full on every 6th step and
		// during the closing sweep; this only bounds the syscall volume.
		full := key == opKey || d.fullSweep || len(d.Trace)%6 == 0
		if key == opKey {
			d.compareStat(op, ScopeComplete, key)
			d.compareStat(op, ScopeIncomplete, key)
		}
		if full {
			d.compareListMD(op, ScopeAny, key)
			if d.Failed {
				return
			}
		}
		if live {
			if full {
				// values: every kind for the op's key, the set ones for the others
				for _, k := range d.Kinds {
					if _, set := b.MD[k.Suffix]; set || key == opKey {
						d.compareMD(op, ScopeAny, key, k.Suffix)
						if d.Failed {
							return
						}
					}
				}
			}
			// bytes through the retained Create handle (does not touch LRU order)
			if o, ok := d.obs[key]; ok {
				buf := make([]byte, len(b.Bytes)+8)
				n, err := o.h.ReadAt(buf, 0)
				if (err != nil && err != io.EOF) || !bytes.Equal(buf[:n], b.Bytes) {
					d.fail("state/blob-bytes-mismatch", op, map[string]interface{}{"key": key, "got": fmt.Sprintf("%x", buf[:n]), "want": fmt.Sprintf("%x", b.Bytes), "err": fmt.Sprint(err)})
					return
				}
			}
		}
	}
	if d.Caps.UtilProbe {
		util, err := d.S.Clean(-1, true)
		if err == nil || util != d.M.Util() {
			d.fail("reserved/not-sum-of-live-sizes", op, map[string]interface{}{"store_util": util, "model_util": d.M.Util(), "model_reserved": d.M.Used, "err": fmt.Sprint(err)})
			return
		}
	}
	if d.M.Used > d.M.Capacity {
		d.fail("reserved/exceeds-capacity", op, nil)
	}
}

// Finish opens every live blob once more (bytes via Open), reveals the whole
// eviction order by forcing evictions one at a time, and closes all handles.
func (d *Differ) Finish(probeKeyIdx int) {
	defer d.Close()
	if d.Failed {
		return
	}
	// drain: Create(probe, free+1) must evict exactly the LRU head (plus
	// zero-sized followers needed... none: minimal prefix), then delete probe.
	probe := d.Keys[probeKeyIdx]
	for i := 0; i < 2*len(d.Keys)+2 && !d.Failed; i++ {
		if _, live := d.M.Blobs[probe]; live {
			if !d.Step(Op{Kind: "delete", Key: probeKeyIdx, Scope: ScopeAny}) {
				return
			}
		}
		if len(d.M.Queue) == 0 {
			break
		}
		if !d.Step(Op{Kind: "create", Key: probeKeyIdx, SizeSpec: "free+1", WriteLen: 0}) {
			return
		}
	}
	d.staleSweep()
	d.fullSweep = true
	for i := range d.Keys {
		if d.Failed {
			return
		}
		d.Step(Op{Kind: "open", Key: i, Scope: ScopeAny})
	}
}

// staleSweep exercises every retained handle whose blob is gone with every
// handle operation (memory store only).
func (d *Differ) staleSweep() {
	if d.Failed || !d.Caps.StaleHandlesFail {
		return
	}
	for i, hi := range d.handles {
		if hi.closed || !d.stale(hi) {
			continue
		}
		for _, k := range []string{"hsize", "hseek", "hread", "hreadat", "hwrite", "hwriteat"} {
			op := Op{Kind: k, H: i, Len: 4, Data: []byte{0xA1, 0xA2, 0xA3}, Whence: i % 3}
			d.Trace = append(d.Trace, fmt.Sprintf("%d:sweep-%s(h%d key=%s gen=%d)", len(d.Trace), k, i, hi.key, hi.gen))
			d.staleOp(op, hi)
			if d.Failed {
				return
			}
		}
	}
}

// Close closes all handles.
func (d *Differ) Close() {
	for _, hi := range d.handles {
		if !hi.closed {
			hi.h.Close()
			hi.closed = true
		}
	}
	for k := range d.obs {
		delete(d.obs, k)
	}
}
