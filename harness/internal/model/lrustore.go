// Package model holds the executable reference models the differential
// monitors compare kraken against.
//
// LRUStore is the capacity-bounded LRU blob store that disk.Store (C07) and
// memory.Store (C08) are specified to behave like: a map of blobs with a
// client-declared reserved size, a completeness flag, an eviction ban, a
// metadata map and the bytes written so far; the sum of reserved sizes never
// exceeds the capacity; only complete, not banned blobs are evictable, least
// recently used first, where "used" means MarkComplete, Open and
// UnbanEviction (entering the evictable set counts as a use).
//
// The model has no kraken imports: it is written against the property text,
// not against the implementation.
package model

import (
	"fmt"
	"sort"
)

// ErrClass is the error class a store call returns.
type ErrClass string

// Error classes compared between model and store.
const (
	OK            ErrClass = "ok"
	ErrExist      ErrClass = "exist"
	ErrNotExist   ErrClass = "notexist"
	ErrOutOfScope ErrClass = "outofscope"
	ErrNoSpace    ErrClass = "nospace"
	ErrEvicted    ErrClass = "evicted"
	ErrNoMD       ErrClass = "nomd"
	ErrBadArg     ErrClass = "badarg"
	ErrFault      ErrClass = "iofault" // only legal when the harness injected a filesystem fault
	ErrOther      ErrClass = "other"
)

// Scope mirrors store.BlobScope.
type Scope int

// Scopes.
const (
	ScopeAny Scope = iota
	ScopeComplete
	ScopeIncomplete
)

func (s Scope) String() string {
	switch s {
	case ScopeComplete:
		return "complete"
	case ScopeIncomplete:
		return "incomplete"
	}
	return "any"
}

// MD is one metadata value.
type MD struct {
	Movable bool
	Value   []byte
}

// Blob is one entry of the model.
type Blob struct {
	Gen      int    // generation of the key (1 = first creation)
	Size     uint64 // reserved bytes (the size passed to Create)
	Complete bool
	Banned   bool
	MD       map[string]MD
	Bytes    []byte // content written so far
}

// LRUStore is the reference model.
type LRUStore struct {
	Capacity uint64
	Used     uint64 // reserved bytes
	Blobs    map[string]*Blob
	Queue    []string // evictable blobs, index 0 = next to evict
	gens     map[string]int
}

// NewLRUStore returns an empty model.
func NewLRUStore(capacity uint64) *LRUStore {
	return &LRUStore{Capacity: capacity, Blobs: map[string]*Blob{}, gens: map[string]int{}}
}

// InScope reports whether b is visible under scope.
func InScope(b *Blob, scope Scope) bool {
	return !(b.Complete && scope == ScopeIncomplete) && !(!b.Complete && scope == ScopeComplete)
}

func (m *LRUStore) lookup(scope Scope, key string) (*Blob, ErrClass) {
	b, ok := m.Blobs[key]
	if !ok {
		return nil, ErrNotExist
	}
	if !InScope(b, scope) {
		return nil, ErrOutOfScope
	}
	return b, OK
}

func (m *LRUStore) queueRemove(key string) {
	for i, k := range m.Queue {
		if k == key {
			m.Queue = append(m.Queue[:i:i], m.Queue[i+1:]...)
			return
		}
	}
}

func (m *LRUStore) queuePushBack(key string) {
	m.queueRemove(key)
	m.Queue = append(m.Queue, key)
}

// Gen returns the live generation of key (0 when absent).
func (m *LRUStore) Gen(key string) int {
	if b, ok := m.Blobs[key]; ok {
		return b.Gen
	}
	return 0
}

// Free is capacity minus reserved bytes.
func (m *LRUStore) Free() uint64 { return m.Capacity - m.Used }

// EvictableBytes is the reserved size of all evictable blobs.
func (m *LRUStore) EvictableBytes() uint64 {
	var n uint64
	for _, k := range m.Queue {
		n += m.Blobs[k].Size
	}
	return n
}

// Has mirrors Store.Has.
func (m *LRUStore) Has(scope Scope, key string) (inStore, inScope bool) {
	b, ok := m.Blobs[key]
	if !ok {
		return false, false
	}
	return true, InScope(b, scope)
}

// List returns the sorted keys visible under scope.
func (m *LRUStore) List(scope Scope) []string {
	out := []string{}
	for k, b := range m.Blobs {
		if InScope(b, scope) {
			out = append(out, k)
		}
	}
	sort.Strings(out)
	return out
}

// Stat returns the number of bytes written so far.
func (m *LRUStore) Stat(scope Scope, key string) (int64, ErrClass) {
	b, c := m.lookup(scope, key)
	if c != OK {
		return 0, c
	}
	return int64(len(b.Bytes)), OK
}

// Open touches the blob's recency when it is evictable.
func (m *LRUStore) Open(scope Scope, key string) ErrClass {
	b, c := m.lookup(scope, key)
	if c != OK {
		return c
	}
	if b.Complete && !b.Banned {
		m.queuePushBack(key)
	}
	return OK
}

// MarkComplete completes a blob: it becomes evictable (unless banned) and its
// non-movable metadata disappears. Idempotent, not scoped.
func (m *LRUStore) MarkComplete(key string) ErrClass {
	b, ok := m.Blobs[key]
	if !ok {
		return ErrNotExist
	}
	if b.Complete {
		return OK
	}
	b.Complete = true
	if !b.Banned {
		m.queuePushBack(key)
	}
	for s, md := range b.MD {
		if !md.Movable {
			delete(b.MD, s)
		}
	}
	return OK
}

func (m *LRUStore) remove(key string) {
	b := m.Blobs[key]
	m.queueRemove(key)
	m.Used -= b.Size
	delete(m.Blobs, key)
}

// Delete removes a blob and releases its reservation.
func (m *LRUStore) Delete(scope Scope, key string) ErrClass {
	if _, c := m.lookup(scope, key); c != OK {
		return c
	}
	m.remove(key)
	return OK
}

// Ban makes a blob unevictable. Idempotent.
func (m *LRUStore) Ban(scope Scope, key string) ErrClass {
	b, c := m.lookup(scope, key)
	if c != OK {
		return c
	}
	if b.Banned {
		return OK
	}
	b.Banned = true
	m.queueRemove(key)
	return OK
}

// Unban undoes Ban; a complete blob re-enters the queue as most recently used.
func (m *LRUStore) Unban(scope Scope, key string) ErrClass {
	b, c := m.lookup(scope, key)
	if c != OK {
		return c
	}
	if !b.Banned {
		return OK
	}
	b.Banned = false
	if b.Complete {
		m.queuePushBack(key)
	}
	return OK
}

// SetMD sets one metadata value.
func (m *LRUStore) SetMD(scope Scope, key, suffix string, movable bool, val []byte) ErrClass {
	b, c := m.lookup(scope, key)
	if c != OK {
		return c
	}
	b.MD[suffix] = MD{Movable: movable, Value: append([]byte{}, val...)}
	return OK
}

// GetMD returns the last value set.
func (m *LRUStore) GetMD(scope Scope, key, suffix string) ([]byte, bool, ErrClass) {
	b, c := m.lookup(scope, key)
	if c != OK {
		return nil, false, c
	}
	md, ok := b.MD[suffix]
	if !ok {
		return nil, false, OK
	}
	return md.Value, true, OK
}

// DeleteMD removes one metadata value (no error when absent).
func (m *LRUStore) DeleteMD(scope Scope, key, suffix string) ErrClass {
	b, c := m.lookup(scope, key)
	if c != OK {
		return c
	}
	delete(b.MD, suffix)
	return OK
}

// ListMD returns the sorted metadata suffixes of a blob.
func (m *LRUStore) ListMD(scope Scope, key string) ([]string, ErrClass) {
	b, c := m.lookup(scope, key)
	if c != OK {
		return nil, c
	}
	out := []string{}
	for s := range b.MD {
		out = append(out, s)
	}
	sort.Strings(out)
	return out, OK
}

// WriteAtMD patches an existing metadata value like a file WriteAt.
func (m *LRUStore) WriteAtMD(scope Scope, key, suffix string, p []byte, off int64) ErrClass {
	b, c := m.lookup(scope, key)
	if c != OK {
		return c
	}
	md, ok := b.MD[suffix]
	if !ok {
		return ErrNoMD
	}
	md.Value = writeAt(md.Value, p, off)
	b.MD[suffix] = md
	return OK
}

func writeAt(buf, p []byte, off int64) []byte {
	if len(p) == 0 {
		return buf
	}
	end := int(off) + len(p)
	if end > len(buf) {
		nb := make([]byte, end)
		copy(nb, buf)
		buf = nb
	}
	copy(buf[off:], p)
	return buf
}

// WriteBlobAt writes into a blob's content (handle Write/WriteAt).
func (b *Blob) WriteBlobAt(p []byte, off int64) { b.Bytes = writeAt(b.Bytes, p, off) }

// CreatePlan is what the model allows for Create(key, size).
type CreatePlan struct {
	Exists       bool     // key present: must fail with ErrExist
	Fits         bool     // admission possible after evicting everything evictable
	MinimalEvict []string // on success exactly these are evicted, in this order
}

// PlanCreate computes the legal outcomes of Create(key, size).
func (m *LRUStore) PlanCreate(key string, size uint64) CreatePlan {
	if _, ok := m.Blobs[key]; ok {
		return CreatePlan{Exists: true}
	}
	p := CreatePlan{}
	// compare without overflow: Used - evictable + size <= Capacity
	p.Fits = size <= m.Capacity && m.Used-m.EvictableBytes() <= m.Capacity-size
	if !p.Fits {
		return p
	}
	used := m.Used
	for _, k := range m.Queue {
		if used <= m.Capacity-size {
			break
		}
		p.MinimalEvict = append(p.MinimalEvict, k)
		used -= m.Blobs[k].Size
	}
	return p
}

// isQueuePrefix reports whether set equals {Queue[0..n)} for some n, and n.
func (m *LRUStore) isQueuePrefix(set []string) (bool, int) {
	in := map[string]bool{}
	for _, k := range set {
		in[k] = true
	}
	n := 0
	for _, k := range m.Queue {
		if !in[k] {
			break
		}
		n++
	}
	return n == len(in), n
}

// classifyVictims names what is wrong with a set of keys that vanished during
// an LRU eviction; "" when the set is an LRU prefix of the evict queue.
func (m *LRUStore) classifyVictims(vanished []string) string {
	for _, k := range vanished {
		b, ok := m.Blobs[k]
		if !ok {
			return "evicted-unknown-key"
		}
		if !b.Complete {
			return "evicted-incomplete-blob"
		}
		if b.Banned {
			return "evicted-banned-blob"
		}
	}
	if ok, _ := m.isQueuePrefix(vanished); !ok {
		return "evicted-not-lru-first"
	}
	return ""
}

// CheckCreate judges an observed Create outcome (class + the keys that
// vanished from the store) and, when it is legal, applies it to the model.
// fault says the harness injected an I/O fault for this call. It returns ""
// or a violation signature suffix.
func (m *LRUStore) CheckCreate(key string, size uint64, got ErrClass, vanished []string, fault bool) string {
	p := m.PlanCreate(key, size)
	if p.Exists {
		if got != ErrExist {
			return "existing-key-not-refused"
		}
		if len(vanished) > 0 {
			return "evicted-on-refused-existing-key"
		}
		return ""
	}
	if s := m.classifyVictims(vanished); s != "" {
		return s
	}
	switch got {
	case OK:
		if fault {
			return "succeeded-despite-injected-fault"
		}
		if !p.Fits {
			return "admitted-over-capacity"
		}
		if len(vanished) > len(p.MinimalEvict) {
			return "evicted-more-than-needed"
		}
		if len(vanished) < len(p.MinimalEvict) {
			return "admitted-over-capacity"
		}
		for _, k := range vanished {
			m.remove(k)
		}
		m.gens[key]++
		m.Blobs[key] = &Blob{Gen: m.gens[key], Size: size, MD: map[string]MD{}, Bytes: []byte{}}
		m.Used += size
		return ""
	case ErrNoSpace:
		if p.Fits {
			return "refused-although-space-available"
		}
		// any LRU prefix of needless evictions is tolerated (3.40)
		for _, k := range vanished {
			m.remove(k)
		}
		return ""
	case ErrFault:
		if !fault {
			return "io-error-without-fault"
		}
		if len(vanished) > len(p.MinimalEvict) && p.Fits {
			return "evicted-more-than-needed"
		}
		for _, k := range vanished {
			m.remove(k)
		}
		return ""
	}
	return "unexpected-error-class/" + string(got)
}

// Util is floor(100 * reserved / capacity), what Clean reports.
func (m *LRUStore) Util() int { return int(m.Used * 100 / m.Capacity) }

// CheckClean judges an observed Clean(target, respectBan) outcome. Clean
// deletes in three phases, each only while reserved > target size: (1)
// evictable blobs in LRU order, (2) incomplete not banned blobs in any order,
// (3) unless respectBan, banned blobs in any order. Any victim set that some
// legal order produces is accepted. The observed outcome is applied.
func (m *LRUStore) CheckClean(target int, respectBan bool, vanished []string, newUtil int, got ErrClass) string {
	if target < 0 || target >= 100 {
		if got == OK {
			return "invalid-target-accepted"
		}
		if len(vanished) > 0 {
			return "deleted-on-invalid-target"
		}
		if newUtil != m.Util() {
			return "reported-util-mismatch"
		}
		return ""
	}
	if got != OK {
		return "unexpected-error-class/" + string(got)
	}
	targetSize := m.Capacity * uint64(target) / 100
	var p1, p2, p3 []string
	for _, k := range vanished {
		b, ok := m.Blobs[k]
		switch {
		case !ok:
			return "deleted-unknown-key"
		case b.Banned:
			p3 = append(p3, k)
		case b.Complete:
			p1 = append(p1, k)
		default:
			p2 = append(p2, k)
		}
	}
	if respectBan && len(p3) > 0 {
		return "deleted-banned-blob-although-respected"
	}
	used := m.Used
	// phase 1: minimal LRU prefix
	ok, n := m.isQueuePrefix(p1)
	if !ok {
		return "phase1-not-lru-first"
	}
	for i := 0; i < n; i++ {
		if used <= targetSize {
			return "phase1-deleted-below-target"
		}
		used -= m.Blobs[m.Queue[i]].Size
	}
	phase1Exhausted := n == len(m.Queue)
	// a later phase may only run when the previous one ran dry above target
	anyOrderPhase := func(set []string) string {
		if len(set) == 0 {
			return ""
		}
		var sum, max uint64
		for _, k := range set {
			s := m.Blobs[k].Size
			sum += s
			if s > max {
				max = s
			}
		}
		// smallest-first order keeps reserved maximal before each deletion;
		// the last (largest) deletion must still start above target.
		if used-sum+max <= targetSize {
			return "deleted-below-target"
		}
		used -= sum
		return ""
	}
	var cand2, cand3 int
	for _, b := range m.Blobs {
		if b.Banned {
			cand3++
		} else if !b.Complete {
			cand2++
		}
	}
	if len(p2) > 0 {
		if !phase1Exhausted || used <= targetSize {
			return "incomplete-deleted-before-evictable-exhausted"
		}
		if s := anyOrderPhase(p2); s != "" {
			return "phase2-" + s
		}
	}
	if len(p3) > 0 {
		if !phase1Exhausted || len(p2) != cand2 || used <= targetSize {
			return "banned-deleted-before-others-exhausted"
		}
		if s := anyOrderPhase(p3); s != "" {
			return "phase3-" + s
		}
	}
	// completeness: still above target => every eligible blob must be gone
	if used > targetSize {
		if !phase1Exhausted || len(p2) != cand2 || (!respectBan && len(p3) != cand3) {
			return "stopped-above-target"
		}
	}
	for _, k := range vanished {
		m.remove(k)
	}
	if newUtil != m.Util() {
		return "reported-util-mismatch"
	}
	return ""
}

// CheckInvariants verifies the model's own bookkeeping (and thereby, after a
// successful state comparison, the store's): reserved = sum of live sizes,
// reserved <= capacity, queue = complete and not banned blobs.
func (m *LRUStore) CheckInvariants() error {
	var sum uint64
	ev := 0
	for k, b := range m.Blobs {
		sum += b.Size
		if b.Complete && !b.Banned {
			ev++
			found := false
			for _, q := range m.Queue {
				if q == k {
					found = true
				}
			}
			if !found {
				return fmt.Errorf("model: evictable %s not queued", k)
			}
		}
	}
	if ev != len(m.Queue) {
		return fmt.Errorf("model: queue has %d entries, %d evictable blobs", len(m.Queue), ev)
	}
	if sum != m.Used {
		return fmt.Errorf("model: used=%d sum=%d", m.Used, sum)
	}
	if m.Used > m.Capacity {
		return fmt.Errorf("model: used=%d > capacity=%d", m.Used, m.Capacity)
	}
	return nil
}

// Snapshot renders the model state for witnesses.
func (m *LRUStore) Snapshot() map[string]interface{} {
	blobs := map[string]interface{}{}
	for k, b := range m.Blobs {
		mds := map[string]string{}
		for s, md := range b.MD {
			mds[s] = fmt.Sprintf("%x", md.Value)
		}
		blobs[k] = map[string]interface{}{
			"gen": b.Gen, "size": b.Size, "complete": b.Complete, "banned": b.Banned,
			"len": len(b.Bytes), "md": mds,
		}
	}
	return map[string]interface{}{
		"capacity": m.Capacity, "used": m.Used, "queue_front_first": append([]string{}, m.Queue...), "blobs": blobs,
	}
}
