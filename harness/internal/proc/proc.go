// Package proc is the child-process plumbing shared by the fs-watch (C11) and
// kill-restart (C30, C31) engines: building child mains from the harness module
// against /repo's working tree, running them under strace, killing them, and
// parsing strace logs into calls with resolved paths.
package proc

import (
	"bufio"
	"bytes"
	"encoding/json"
	"fmt"
	"io"
	"os"
	"os/exec"
	"path/filepath"
	"strings"
	"sync"
	"syscall"
	"testing"
	"time"

	"verif/harness/internal/ev"
)

// HarnessDir returns the harness module directory.
func HarnessDir() string {
	if d := os.Getenv("VERIF_HARNESS"); d != "" {
		return d
	}
	return filepath.Join(ev.Root(), "harness")
}

// Build builds the main package pkg (relative to the harness module, e.g.
// "./c11/cmd/c11srv") with `-tags verif` against the module's kraken
// replacement (=> /repo, or whatever GOFLAGS=-modfile=... points to) and
// returns the binary path (under $VERIF_TMP).
func Build(t testing.TB, pkg string, race bool) string {
	t.Helper()
	dir := ev.TempDir(t, "bin-")
	out := filepath.Join(dir, filepath.Base(pkg))
	args := []string{"build", "-tags", "verif", "-o", out}
	if race {
		args = append(args, "-race")
	}
	args = append(args, pkg)
	cmd := exec.Command("go", args...)
	cmd.Dir = HarnessDir()
	env := os.Environ()
	if os.Getenv("GOPROXY") == "" {
		env = append(env, "GOPROXY=off")
	}
	if os.Getenv("GOFLAGS") == "" {
		env = append(env, "GOFLAGS=-mod=mod")
	}
	cmd.Env = env
	var buf bytes.Buffer
	cmd.Stdout, cmd.Stderr = &buf, &buf
	if err := cmd.Run(); err != nil {
		t.Fatalf("build %s: %v\n%s", pkg, err, buf.String())
	}
	return out
}

// Opts configures Start.
type Opts struct {
	Dir   string   // working directory of the child
	Env   []string // extra environment
	Trace string   // strace -e trace=<Trace>; "" = run without strace
	// Inject is an strace -e inject= expression, e.g.
	// "write,pwrite64,fsync:signal=KILL:when=7".
	Inject string
	// SeccompBPF runs strace with --seccomp-bpf (do not combine with Inject).
	SeccompBPF bool
	// Log is the strace output file (required when Trace != "").
	Log string
	// Stderr receives the child's stderr ("" = discarded into a bounded buffer).
	StderrFile string
}

// Child is a running child process (possibly under strace) with a JSON-lines
// control channel on stdin/stdout.
type Child struct {
	cmd    *exec.Cmd
	stdin  io.WriteCloser
	lines  chan string
	errBuf *tailBuffer
	done   chan struct{}
	werr   error
	mu     sync.Mutex
	killed bool
}

type tailBuffer struct {
	mu sync.Mutex
	b  []byte
}

func (t *tailBuffer) Write(p []byte) (int, error) {
	t.mu.Lock()
	t.b = append(t.b, p...)
	if len(t.b) > 32<<10 {
		t.b = t.b[len(t.b)-(32<<10):]
	}
	t.mu.Unlock()
	return len(p), nil
}

func (t *tailBuffer) String() string {
	t.mu.Lock()
	defer t.mu.Unlock()
	return string(t.b)
}

// Start runs bin with args. With o.Trace set the child runs under
// `strace -f -y -xx -s 65536 -e trace=<Trace> -o <Log>`.
func Start(o Opts, bin string, args ...string) (*Child, error) {
	var cmd *exec.Cmd
	if o.Trace != "" {
		if o.Log == "" {
			return nil, fmt.Errorf("proc.Start: Log required with Trace")
		}
		sa := []string{"-f", "-y", "-xx", "-s", "65536", "-e", "trace=" + o.Trace, "-e", "signal=none", "-o", o.Log}
		if o.SeccompBPF {
			// strace stops the tracee only on traced syscalls (much cheaper for
			// servers); measured here: -e inject has NO effect in this mode.
			sa = append([]string{"--seccomp-bpf"}, sa...)
		}
		if o.Inject != "" {
			sa = append(sa, "-e", "inject="+o.Inject)
		}
		sa = append(sa, "--", bin)
		sa = append(sa, args...)
		cmd = exec.Command("strace", sa...)
	} else {
		cmd = exec.Command(bin, args...)
	}
	cmd.Dir = o.Dir
	cmd.Env = append(os.Environ(), o.Env...)
	cmd.SysProcAttr = &syscall.SysProcAttr{Setpgid: true}
	stdin, err := cmd.StdinPipe()
	if err != nil {
		return nil, err
	}
	stdout, err := cmd.StdoutPipe()
	if err != nil {
		return nil, err
	}
	c := &Child{cmd: cmd, stdin: stdin, lines: make(chan string, 4096), errBuf: &tailBuffer{}, done: make(chan struct{})}
	if o.StderrFile != "" {
		f, err := os.Create(o.StderrFile)
		if err != nil {
			return nil, err
		}
		cmd.Stderr = f
		defer f.Close()
	} else {
		cmd.Stderr = c.errBuf
	}
	if err := cmd.Start(); err != nil {
		return nil, err
	}
	go func() {
		sc := bufio.NewScanner(stdout)
		sc.Buffer(make([]byte, 1<<20), 64<<20)
		for sc.Scan() {
			c.lines <- sc.Text()
		}
		close(c.lines)
		c.werr = cmd.Wait()
		close(c.done)
	}()
	return c, nil
}

// Send writes one JSON line to the child's stdin.
func (c *Child) Send(v interface{}) error {
	b, err := json.Marshal(v)
	if err != nil {
		return err
	}
	b = append(b, '\n')
	_, err = c.stdin.Write(b)
	return err
}

// SendLine writes one raw line to the child's stdin.
func (c *Child) SendLine(l string) error {
	_, err := c.stdin.Write([]byte(l + "\n"))
	return err
}

// ErrTimeout is returned by Recv when the watchdog expires.
var ErrTimeout = fmt.Errorf("timeout waiting for child")

// ErrExited is returned by Recv when the child's stdout closed.
var ErrExited = fmt.Errorf("child exited")

// RecvLine returns the next stdout line of the child.
func (c *Child) RecvLine(timeout time.Duration) (string, error) {
	select {
	case l, ok := <-c.lines:
		if !ok {
			return "", ErrExited
		}
		return l, nil
	case <-time.After(timeout):
		return "", ErrTimeout
	}
}

// Recv decodes the next stdout line (JSON) into v.
func (c *Child) Recv(v interface{}, timeout time.Duration) error {
	l, err := c.RecvLine(timeout)
	if err != nil {
		return err
	}
	if err := json.Unmarshal([]byte(l), v); err != nil {
		return fmt.Errorf("bad line from child %q: %v", l, err)
	}
	return nil
}

// Call sends req and decodes the next line into resp.
func (c *Child) Call(req, resp interface{}, timeout time.Duration) error {
	if err := c.Send(req); err != nil {
		return fmt.Errorf("send: %w", ErrExited)
	}
	return c.Recv(resp, timeout)
}

// Kill SIGKILLs the whole process group (strace and the traced child).
func (c *Child) Kill() {
	c.mu.Lock()
	c.killed = true
	c.mu.Unlock()
	if c.cmd.Process != nil {
		_ = syscall.Kill(-c.cmd.Process.Pid, syscall.SIGKILL)
	}
	<-c.done
}

// CloseStdin closes the control channel (children exit on EOF).
func (c *Child) CloseStdin() { _ = c.stdin.Close() }

// Wait waits for the child to exit; on watchdog expiry it is killed and
// ErrTimeout returned.
func (c *Child) Wait(timeout time.Duration) error {
	select {
	case <-c.done:
		return c.werr
	case <-time.After(timeout):
		c.Kill()
		return ErrTimeout
	}
}

// Done is closed when the child has exited.
func (c *Child) Done() <-chan struct{} { return c.done }

// Exited reports whether the child has exited.
func (c *Child) Exited() bool {
	select {
	case <-c.done:
		return true
	default:
		return false
	}
}

// Stderr returns the tail of the child's stderr.
func (c *Child) Stderr() string { return c.errBuf.String() }

// Pid returns the pid of the started process (strace when tracing).
func (c *Child) Pid() int { return c.cmd.Process.Pid }

// AttachInject attaches strace to the running process pid (all threads, -f) and
// SIGKILLs it on entry to the when-th syscall of the set made by one thread
// (counted from the moment of attaching). The returned function waits for
// strace to exit (it exits when the tracee is gone) and must be called after
// the child has died or been killed.
func AttachInject(pid int, set string, when int, log string) (wait func(), err error) {
	cmd := exec.Command("strace", "-f", "-p", fmt.Sprint(pid), "-e", "trace="+set, "-e", "signal=none",
		"-e", fmt.Sprintf("inject=%s:signal=KILL:when=%d", set, when), "-o", log)
	cmd.SysProcAttr = &syscall.SysProcAttr{Setpgid: true}
	var buf tailBuffer
	cmd.Stderr = &buf
	if err := cmd.Start(); err != nil {
		return nil, err
	}
	done := make(chan struct{})
	go func() { _ = cmd.Wait(); close(done) }()
	// wait until strace reports that it attached (or gave up / the tracee died)
	for i := 0; i < 500; i++ {
		if strings.Contains(buf.String(), "attached") {
			break
		}
		select {
		case <-done:
			i = 500
		case <-time.After(10 * time.Millisecond):
		}
	}
	return func() {
		select {
		case <-done:
		case <-time.After(10 * time.Second):
			_ = syscall.Kill(-cmd.Process.Pid, syscall.SIGKILL)
			<-done
		}
	}, nil
}

// ---------------------------------------------------------------------------
// strace log parsing

// Call is one completed syscall from an strace log.
type Call struct {
	Line int    // line number of the completing line
	Pid  int    // thread id
	Name string // syscall name
	Args []string
	Ret  string // text after " = "
	Raw  string
}

// Failed reports whether the call returned an error.
func (c Call) Failed() bool { return strings.HasPrefix(c.Ret, "-1 ") }

// Event is a non-syscall log line ("+++ killed by SIGKILL +++", signals).
type Event struct {
	Line int
	Pid  int
	Text string
}

// ParseLog parses an strace -f -o log; fn is called for every completed
// syscall in completion order, ev (may be nil) for exit/kill lines. Calls
// still unfinished at the end of the log are passed to fn with Ret "?".
func ParseLog(path string, fn func(Call), evf func(Event)) error {
	f, err := os.Open(path)
	if err != nil {
		return err
	}
	defer f.Close()
	sc := bufio.NewScanner(f)
	sc.Buffer(make([]byte, 1<<20), 256<<20)
	pending := map[int]string{}
	pendingLine := map[int]int{}
	n := 0
	for sc.Scan() {
		n++
		line := sc.Text()
		sp := strings.IndexByte(line, ' ')
		if sp < 0 {
			continue
		}
		pid := atoi(line[:sp])
		rest := strings.TrimLeft(line[sp+1:], " ")
		switch {
		case strings.HasPrefix(rest, "+++") || strings.HasPrefix(rest, "---"):
			if evf != nil {
				evf(Event{Line: n, Pid: pid, Text: rest})
			}
			continue
		case strings.HasPrefix(rest, "<... "):
			i := strings.Index(rest, " resumed>")
			if i < 0 {
				continue
			}
			prev, ok := pending[pid]
			if !ok {
				continue
			}
			delete(pending, pid)
			rest = prev + rest[i+len(" resumed>"):]
		}
		if strings.HasSuffix(rest, "<unfinished ...>") {
			pending[pid] = strings.TrimSuffix(rest, "<unfinished ...>")
			pendingLine[pid] = n
			continue
		}
		if c, ok := parseCall(rest); ok {
			c.Line, c.Pid = n, pid
			fn(c)
		}
	}
	for pid, p := range pending {
		if c, ok := parseCall(p + ") = ?"); ok {
			c.Line, c.Pid = pendingLine[pid], pid
			c.Ret = "?"
			fn(c)
		}
	}
	return sc.Err()
}

func atoi(s string) int {
	n := 0
	for _, c := range s {
		if c < '0' || c > '9' {
			return n
		}
		n = n*10 + int(c-'0')
	}
	return n
}

// parseCall parses "name(arg, arg, ...) = ret".
func parseCall(s string) (Call, bool) {
	op := strings.IndexByte(s, '(')
	if op <= 0 {
		return Call{}, false
	}
	name := s[:op]
	for _, ch := range name {
		if !(ch == '_' || ch >= 'a' && ch <= 'z' || ch >= '0' && ch <= '9' || ch >= 'A' && ch <= 'Z') {
			return Call{}, false
		}
	}
	var args []string
	depth := 0
	inStr := false
	inAngle := false
	start := op + 1
	i := op + 1
	end := -1
	for ; i < len(s); i++ {
		ch := s[i]
		if inStr {
			if ch == '\\' {
				i++
			} else if ch == '"' {
				inStr = false
			}
			continue
		}
		if inAngle {
			if ch == '\\' {
				i++
			} else if ch == '>' {
				inAngle = false
			}
			continue
		}
		switch ch {
		case '"':
			inStr = true
		case '<':
			// fd annotation: follows a digit or AT_FDCWD
			if i > 0 && (s[i-1] >= '0' && s[i-1] <= '9' || s[i-1] == 'D') {
				inAngle = true
			}
		case '(', '[', '{':
			depth++
		case ']', '}':
			depth--
		case ')':
			if depth == 0 {
				end = i
			} else {
				depth--
			}
		case ',':
			if depth == 0 {
				args = append(args, strings.TrimSpace(s[start:i]))
				start = i + 1
			}
		}
		if end >= 0 {
			break
		}
	}
	if end < 0 {
		return Call{}, false
	}
	if last := strings.TrimSpace(s[start:end]); last != "" || len(args) > 0 {
		args = append(args, last)
	}
	ret := ""
	if j := strings.Index(s[end:], " = "); j >= 0 {
		ret = strings.TrimSpace(s[end+j+3:])
	}
	return Call{Name: name, Args: args, Ret: ret, Raw: s}, true
}

// StrArg decodes a quoted strace string argument ("..." with \x.., octal and C
// escapes). ok is false when a is not a string literal; truncated is true when
// strace abbreviated it ("..."...).
func StrArg(a string) (s string, ok bool, truncated bool) {
	if len(a) < 2 || a[0] != '"' {
		return "", false, false
	}
	end := -1
	for i := 1; i < len(a); i++ {
		if a[i] == '\\' {
			i++
			continue
		}
		if a[i] == '"' {
			end = i
			break
		}
	}
	if end < 0 {
		return "", false, false
	}
	truncated = strings.HasPrefix(a[end+1:], "...")
	return unescape(a[1:end]), true, truncated
}

func unescape(s string) string {
	if !strings.Contains(s, "\\") {
		return s
	}
	var b []byte
	for i := 0; i < len(s); i++ {
		ch := s[i]
		if ch != '\\' || i+1 >= len(s) {
			b = append(b, ch)
			continue
		}
		i++
		switch s[i] {
		case 'x':
			if i+2 <= len(s)-1 {
				v := unhex(s[i+1])<<4 | unhex(s[i+2])
				b = append(b, byte(v))
				i += 2
			}
		case 'n':
			b = append(b, '\n')
		case 't':
			b = append(b, '\t')
		case 'r':
			b = append(b, '\r')
		case 'v':
			b = append(b, '\v')
		case 'f':
			b = append(b, '\f')
		case '0', '1', '2', '3', '4', '5', '6', '7':
			v := 0
			k := 0
			for k < 3 && i < len(s) && s[i] >= '0' && s[i] <= '7' {
				v = v*8 + int(s[i]-'0')
				i++
				k++
			}
			i--
			b = append(b, byte(v))
		default:
			b = append(b, s[i])
		}
	}
	return string(b)
}

func unhex(c byte) int {
	switch {
	case c >= '0' && c <= '9':
		return int(c - '0')
	case c >= 'a' && c <= 'f':
		return int(c-'a') + 10
	case c >= 'A' && c <= 'F':
		return int(c-'A') + 10
	}
	return 0
}

// FdArg decodes "5</path>" or "AT_FDCWD</cwd>"; cwd reports the latter.
func FdArg(a string) (path string, cwd bool, ok bool) {
	a = strings.TrimSuffix(a, "(deleted)")
	i := strings.IndexByte(a, '<')
	if i < 0 || !strings.HasSuffix(a, ">") {
		if a == "AT_FDCWD" {
			return "", true, true
		}
		return "", false, false
	}
	head := a[:i]
	p := unescape(a[i+1 : len(a)-1])
	if head == "AT_FDCWD" {
		return p, true, true
	}
	for _, ch := range head {
		if ch < '0' || ch > '9' {
			return "", false, false
		}
	}
	return p, false, true
}

// PathRef is one path named by a syscall, lexically resolved against its
// dirfd / the cwd.
type PathRef struct {
	Path      string // absolute, cleaned
	Given     string // the string as passed
	Mutating  bool   // the call creates, writes, renames or removes the path
	Truncated bool
	Relative  bool // Given was relative
}

type pathSpec struct{ dirfd, path int }

var pathTable = map[string][]pathSpec{
	"open": {{-1, 0}}, "creat": {{-1, 0}}, "stat": {{-1, 0}}, "lstat": {{-1, 0}}, "access": {{-1, 0}},
	"mkdir": {{-1, 0}}, "rmdir": {{-1, 0}}, "unlink": {{-1, 0}}, "chmod": {{-1, 0}}, "chown": {{-1, 0}},
	"lchown": {{-1, 0}}, "truncate": {{-1, 0}}, "readlink": {{-1, 0}}, "chdir": {{-1, 0}}, "statfs": {{-1, 0}},
	"execve": {{-1, 0}}, "utime": {{-1, 0}}, "utimes": {{-1, 0}}, "mknod": {{-1, 0}}, "chroot": {{-1, 0}},
	"getxattr": {{-1, 0}}, "lgetxattr": {{-1, 0}}, "setxattr": {{-1, 0}}, "lsetxattr": {{-1, 0}},
	"listxattr": {{-1, 0}}, "llistxattr": {{-1, 0}}, "removexattr": {{-1, 0}}, "lremovexattr": {{-1, 0}},
	"rename": {{-1, 0}, {-1, 1}}, "link": {{-1, 0}, {-1, 1}}, "symlink": {{-1, 1}},
	"openat": {{0, 1}}, "openat2": {{0, 1}}, "newfstatat": {{0, 1}}, "fstatat64": {{0, 1}}, "statx": {{0, 1}},
	"unlinkat": {{0, 1}}, "mkdirat": {{0, 1}}, "mknodat": {{0, 1}}, "readlinkat": {{0, 1}},
	"faccessat": {{0, 1}}, "faccessat2": {{0, 1}}, "fchmodat": {{0, 1}}, "fchmodat2": {{0, 1}}, "fchownat": {{0, 1}},
	"utimensat": {{0, 1}}, "futimesat": {{0, 1}}, "execveat": {{0, 1}}, "name_to_handle_at": {{0, 1}},
	"renameat": {{0, 1}, {2, 3}}, "renameat2": {{0, 1}, {2, 3}}, "linkat": {{0, 1}, {2, 3}},
	"symlinkat": {{1, 2}}, "inotify_add_watch": {{-1, 1}},
}

var mutatingCalls = map[string]bool{
	"creat": true, "mkdir": true, "rmdir": true, "unlink": true, "chmod": true, "chown": true, "lchown": true,
	"truncate": true, "utime": true, "utimes": true, "mknod": true, "setxattr": true, "lsetxattr": true,
	"removexattr": true, "lremovexattr": true, "rename": true, "link": true, "symlink": true,
	"unlinkat": true, "mkdirat": true, "mknodat": true, "fchmodat": true, "fchmodat2": true, "fchownat": true,
	"utimensat": true, "futimesat": true, "renameat": true, "renameat2": true, "linkat": true, "symlinkat": true,
}

// KnownPathCall reports whether the syscall is in the path table.
func KnownPathCall(name string) bool { _, ok := pathTable[name]; return ok }

// Paths returns the paths named by c. cwd is used for calls without a dirfd
// when the log carries no AT_FDCWD annotation. Unknown syscalls yield every
// string argument (conservative).
func Paths(c Call, cwd string) []PathRef {
	var out []PathRef
	mut := mutatingCalls[c.Name]
	if c.Name == "open" || c.Name == "openat" || c.Name == "openat2" {
		for _, a := range c.Args {
			if strings.Contains(a, "O_WRONLY") || strings.Contains(a, "O_RDWR") || strings.Contains(a, "O_CREAT") ||
				strings.Contains(a, "O_TRUNC") || strings.Contains(a, "O_APPEND") {
				mut = true
			}
		}
	}
	add := func(base, given string, trunc bool) {
		p := given
		rel := !strings.HasPrefix(given, "/")
		if rel {
			if base == "" {
				base = cwd
			}
			p = base + "/" + given
		}
		out = append(out, PathRef{Path: filepath.Clean(p), Given: given, Mutating: mut, Truncated: trunc, Relative: rel})
	}
	specs, ok := pathTable[c.Name]
	if !ok {
		for _, a := range c.Args {
			if s, ok, tr := StrArg(a); ok {
				add(cwd, s, tr)
			}
		}
		return out
	}
	for _, sp := range specs {
		if sp.path >= len(c.Args) {
			continue
		}
		s, ok, tr := StrArg(c.Args[sp.path])
		if !ok {
			continue // NULL
		}
		base := cwd
		if sp.dirfd >= 0 && sp.dirfd < len(c.Args) {
			if p, _, ok := FdArg(c.Args[sp.dirfd]); ok && p != "" {
				base = p
			}
		}
		if s == "" {
			// AT_EMPTY_PATH: the dirfd itself
			out = append(out, PathRef{Path: filepath.Clean(base), Given: "", Mutating: mut})
			continue
		}
		add(base, s, tr)
	}
	return out
}

// Within reports whether p equals root or lies below it.
func Within(p, root string) bool {
	return p == root || strings.HasPrefix(p, strings.TrimSuffix(root, "/")+"/")
}
