// Package sched is the yield-point controller used by the yield-sched checks.
//
// Kraken (built with `-tags verif`) calls verifhook.Point(name, key) at a few
// places between critical sections. A Hub is installed as the (process-wide)
// handler and routes every arrival to a Session by the prefix of the key (the
// part before the first '.'), so several independent sessions — one per store /
// limiter under test — can run in parallel in one process.
//
// A Session decides per arrival whether the calling goroutine passes or parks.
// A parked goroutine is handed to the controlling goroutine as an *Arrival; the
// controller runs other operations and then calls Release. Every arrival and
// every controller-side Mark is appended to the session's order trace, from
// which Signature() is computed: that is the interleaving actually observed,
// not the one that was asked for.
//
// The package has no dependency on kraken: install with
// verifhook.Set(hub.Handle).
package sched

import (
	"crypto/sha256"
	"encoding/hex"
	"runtime"
	"strings"
	"sync"
	"sync/atomic"
	"time"
)

// Action is what a policy decides for one arrival.
type Action int

const (
	// Pass lets the goroutine continue (the arrival is still recorded).
	Pass Action = iota
	// Park holds the goroutine until the controller releases it.
	Park
	// Ignore lets the goroutine continue and records nothing.
	Ignore
	// Yield records the arrival, then calls runtime.Gosched before continuing
	// (free-running perturbation).
	Yield
	// Nap records the arrival, then sleeps ~50µs before continuing
	// (free-running perturbation).
	Nap
)

// Policy decides what happens to a goroutine arriving at point name for key.
// It is called with the session lock held and must not block.
type Policy func(name, key string) Action

// Event is one entry of a session's order trace.
type Event struct {
	Stamp int64  // value of the shared counter when the event was recorded
	Kind  string // "arrive", "pass", "release", "mark"
	Name  string // point name, or the label of a Mark
	Key   string
}

// Arrival is a goroutine parked at a yield point.
type Arrival struct {
	Name, Key string
	Stamp     int64
	s         *Session
	ch        chan struct{}
	once      sync.Once
}

// Release lets the parked goroutine continue.
func (a *Arrival) Release() {
	a.once.Do(func() {
		a.s.record("release", a.Name, a.Key)
		close(a.ch)
	})
}

// Hub routes hook calls to sessions.
type Hub struct {
	mu       sync.RWMutex
	sessions map[string]*Session
	unrouted atomic.Int64
	// Clock, when set, supplies the stamps (so that hook events and client
	// operations share one monotonic counter). Defaults to an internal counter.
	clock func() int64
	ctr   atomic.Int64
}

// NewHub creates a hub. clock may be nil.
func NewHub(clock func() int64) *Hub {
	h := &Hub{sessions: map[string]*Session{}, clock: clock}
	if h.clock == nil {
		h.clock = func() int64 { return h.ctr.Add(1) }
	}
	return h
}

// SessionID returns the routing prefix of key.
func SessionID(key string) string {
	if i := strings.IndexByte(key, '.'); i >= 0 {
		return key[:i]
	}
	return key
}

// Handle is the function to install with verifhook.Set.
func (h *Hub) Handle(name, key string) {
	h.mu.RLock()
	s := h.sessions[SessionID(key)]
	h.mu.RUnlock()
	if s == nil {
		h.unrouted.Add(1)
		return
	}
	s.arrive(name, key)
}

// Unrouted is the number of hook calls that matched no session.
func (h *Hub) Unrouted() int64 { return h.unrouted.Load() }

// NewSession registers a session for keys "<id>.<anything>". policy may be nil
// (everything passes and is recorded).
func (h *Hub) NewSession(id string, policy Policy) *Session {
	s := &Session{id: id, hub: h, policy: policy, parked: make(chan *Arrival, 64), counts: map[string]int64{}}
	h.mu.Lock()
	h.sessions[id] = s
	h.mu.Unlock()
	return s
}

// Session is the controller for one object under test.
type Session struct {
	id  string
	hub *Hub

	mu      sync.Mutex
	policy  Policy
	trace   []Event
	counts  map[string]int64
	waiting []*Arrival // currently parked, in arrival order
	closed  bool
	notrace bool

	parked chan *Arrival
}

// ID returns the routing prefix.
func (s *Session) ID() string { return s.id }

// SetPolicy replaces the policy.
func (s *Session) SetPolicy(p Policy) {
	s.mu.Lock()
	s.policy = p
	s.mu.Unlock()
}

// CountOnly stops appending to the trace (counters are still kept); used by
// long free-running phases.
func (s *Session) CountOnly(b bool) {
	s.mu.Lock()
	s.notrace = b
	s.mu.Unlock()
}

func (s *Session) record(kind, name, key string) int64 {
	st := s.hub.clock()
	s.mu.Lock()
	if !s.notrace {
		s.trace = append(s.trace, Event{Stamp: st, Kind: kind, Name: name, Key: key})
	}
	s.mu.Unlock()
	return st
}

func (s *Session) arrive(name, key string) {
	st := s.hub.clock()
	s.mu.Lock()
	act := Pass
	if s.policy != nil && !s.closed {
		act = s.policy(name, key)
	}
	if act == Ignore {
		s.mu.Unlock()
		return
	}
	s.counts[name]++
	if act != Park || s.closed {
		if !s.notrace {
			s.trace = append(s.trace, Event{Stamp: st, Kind: "pass", Name: name, Key: key})
		}
		s.mu.Unlock()
		switch act {
		case Yield:
			runtime.Gosched()
		case Nap:
			time.Sleep(50 * time.Microsecond)
		}
		return
	}
	a := &Arrival{Name: name, Key: key, Stamp: st, s: s, ch: make(chan struct{})}
	if !s.notrace {
		s.trace = append(s.trace, Event{Stamp: st, Kind: "arrive", Name: name, Key: key})
	}
	s.waiting = append(s.waiting, a)
	s.mu.Unlock()
	s.parked <- a
	<-a.ch
	s.mu.Lock()
	for i, w := range s.waiting {
		if w == a {
			s.waiting = append(s.waiting[:i], s.waiting[i+1:]...)
			break
		}
	}
	s.mu.Unlock()
}

// Next waits for the next goroutine to park and returns it; ok is false when
// the watchdog d expired (callers report that as inconclusive).
func (s *Session) Next(d time.Duration) (a *Arrival, ok bool) {
	t := time.NewTimer(d)
	defer t.Stop()
	select {
	case a = <-s.parked:
		return a, true
	case <-t.C:
		return nil, false
	}
}

// Poll returns a parked goroutine if one has been announced, without waiting.
func (s *Session) Poll() (a *Arrival, ok bool) {
	select {
	case a = <-s.parked:
		return a, true
	default:
		return nil, false
	}
}

// Mark appends a controller-side event (a client operation) to the trace.
func (s *Session) Mark(label, key string) int64 { return s.record("mark", label, key) }

// Close releases everything that is parked, lets all later arrivals pass and
// unregisters the session.
func (s *Session) Close() {
	s.mu.Lock()
	s.closed = true
	w := append([]*Arrival(nil), s.waiting...)
	s.mu.Unlock()
	for _, a := range w {
		a.Release()
	}
	for {
		select {
		case a := <-s.parked:
			a.Release()
			continue
		default:
		}
		break
	}
	s.hub.mu.Lock()
	delete(s.hub.sessions, s.id)
	s.hub.mu.Unlock()
}

// Trace returns a copy of the order trace.
func (s *Session) Trace() []Event {
	s.mu.Lock()
	defer s.mu.Unlock()
	return append([]Event(nil), s.trace...)
}

// Counts returns arrivals per point name.
func (s *Session) Counts() map[string]int64 {
	s.mu.Lock()
	defer s.mu.Unlock()
	m := make(map[string]int64, len(s.counts))
	for k, v := range s.counts {
		m[k] = v
	}
	return m
}

// Order renders the trace as "name(key-suffix)" items in the observed order.
// Releases are left out (a release is always immediately followed by the
// released goroutine's next arrival or by a mark), keys are stripped of the
// session prefix and mapped through keyName (nil: keep) so that signatures do
// not depend on session ids. Items for which keyName returns "" are dropped.
func (s *Session) Order(keyName func(string) string) []string {
	tr := s.Trace()
	out := make([]string, 0, len(tr))
	for _, e := range tr {
		if e.Kind == "release" {
			continue
		}
		k := e.Key
		if i := strings.IndexByte(k, '.'); i >= 0 {
			k = k[i+1:]
		}
		if keyName != nil {
			k = keyName(k)
			if k == "" {
				continue
			}
		}
		n := e.Name
		if e.Kind == "mark" {
			n = "op:" + n
		}
		out = append(out, n+"("+k+")")
	}
	return out
}

// Signature is a short hash of Order.
func (s *Session) Signature(keyName func(string) string) string {
	return HashOrder(s.Order(keyName))
}

// HashOrder hashes an order listing.
func HashOrder(order []string) string {
	h := sha256.Sum256([]byte(strings.Join(order, ">")))
	return hex.EncodeToString(h[:8])
}
