package schedrig

import (
	"github.com/uber/kraken/core"
	"github.com/uber/kraken/lib/torrent/storage"
)

// ArchiveHooks observe (and may delay) piece traffic of the torrents handed out
// by a wrapped archive. Any hook may be nil. The hooks never change results.
type ArchiveHooks struct {
	// BeforeWritePiece runs before the real WritePiece; it may block.
	BeforeWritePiece func(d core.Digest, piece int)
	// AfterWritePiece runs after the real WritePiece returned err.
	AfterWritePiece func(d core.Digest, piece int, err error)
	// OnPieceReaderClose runs when a piece reader handed out for an upload has
	// been closed (the piece has been served) with the Close error.
	OnPieceReaderClose func(d core.Digest, piece int, err error)
	// BeforePieceRead runs once per piece reader, before its first Read (the
	// conn starts copying the piece to the socket); it may block, which keeps
	// the reader open — a transfer that takes time.
	BeforePieceRead func(d core.Digest, piece int)
}

type archiveWrapper struct {
	storage.TorrentArchive
	h *ArchiveHooks
}

// NewArchiveWrapper wraps inner so that its torrents report to h.
func NewArchiveWrapper(inner storage.TorrentArchive, h *ArchiveHooks) storage.TorrentArchive {
	return &archiveWrapper{inner, h}
}

func (a *archiveWrapper) CreateTorrent(ns string, d core.Digest) (storage.Torrent, error) {
	t, err := a.TorrentArchive.CreateTorrent(ns, d)
	if err != nil {
		return nil, err
	}
	return &torrentWrapper{t, a.h}, nil
}

func (a *archiveWrapper) GetTorrent(ns string, d core.Digest) (storage.Torrent, error) {
	t, err := a.TorrentArchive.GetTorrent(ns, d)
	if err != nil {
		return nil, err
	}
	return &torrentWrapper{t, a.h}, nil
}

type torrentWrapper struct {
	storage.Torrent
	h *ArchiveHooks
}

func (t *torrentWrapper) WritePiece(src storage.PieceReader, piece int) error {
	if t.h.BeforeWritePiece != nil {
		t.h.BeforeWritePiece(t.Digest(), piece)
	}
	err := t.Torrent.WritePiece(src, piece)
	if t.h.AfterWritePiece != nil {
		t.h.AfterWritePiece(t.Digest(), piece, err)
	}
	return err
}

func (t *torrentWrapper) GetPieceReader(piece int) (storage.PieceReader, error) {
	pr, err := t.Torrent.GetPieceReader(piece)
	if err != nil {
		return nil, err
	}
	return &readerWrapper{PieceReader: pr, t: t, piece: piece}, nil
}

type readerWrapper struct {
	storage.PieceReader
	t       *torrentWrapper
	piece   int
	started bool // Read is only called by the one goroutine copying the piece
}

func (r *readerWrapper) Read(p []byte) (int, error) {
	if !r.started {
		r.started = true
		if r.t.h.BeforePieceRead != nil {
			r.t.h.BeforePieceRead(r.t.Digest(), r.piece)
		}
	}
	return r.PieceReader.Read(p)
}

func (r *readerWrapper) Close() error {
	err := r.PieceReader.Close()
	if r.t.h.OnPieceReaderClose != nil {
		r.t.h.OnPieceReaderClose(r.t.Digest(), r.piece, err)
	}
	return err
}
