package schedrig

import (
	"sync"
	"time"

	"github.com/uber/kraken/core"
	"github.com/uber/kraken/lib/torrent/scheduler"
)

// Applied is one applied event in the order the event loop ran them.
type Applied struct {
	Seq      int
	Name     string
	InfoHash core.InfoHash
	Digest   core.Digest
}

// Gate is a named turnstile set. Wired into a scheduler through Hooks() it
// can hold the *send* of every event of a type (the sender goroutine parks
// before the event reaches the loop — exactly what an unlucky goroutine
// schedule does), release them one by one or all at once, and it records the
// order in which the loop applied events. The same Enter/Exit pair is usable
// for any other yield point (e.g. piece writes of an archive wrapper).
type Gate struct {
	mu      sync.Mutex
	changed chan struct{}

	held    map[string]bool
	tokens  map[string]int
	parked  map[string]int
	entered map[string]int
	sent    map[string]int
	sentOK  map[string]int
	applied map[string]int

	track map[string]bool
	log   []Applied

	// BeforeApply / AfterApply, if set before the scheduler starts, run on the
	// event loop goroutine (the view is only valid inside the callback).
	BeforeApply func(scheduler.VerifC17EventInfo, scheduler.VerifC17View)
	AfterApply  func(scheduler.VerifC17EventInfo, scheduler.VerifC17View)
}

// Names of the scheduler events the monitors care about.
const (
	EvNewTorrent = "newTorrentEvent"
	EvComplete   = "dispatcherCompleteEvent"
	EvRemove     = "removeTorrentEvent"
	EvTick       = "preemptionTickEvent"
	EvShutdown   = "shutdownEvent"
)

// NewGate returns a gate which logs the five lifecycle events.
func NewGate() *Gate {
	g := &Gate{
		changed: make(chan struct{}),
		held:    map[string]bool{},
		tokens:  map[string]int{},
		parked:  map[string]int{},
		entered: map[string]int{},
		sent:    map[string]int{},
		sentOK:  map[string]int{},
		applied: map[string]int{},
		track:   map[string]bool{EvNewTorrent: true, EvComplete: true, EvRemove: true, EvTick: true, EvShutdown: true},
	}
	return g
}

func (g *Gate) notifyLocked() {
	close(g.changed)
	g.changed = make(chan struct{})
}

// Hold makes every later Enter(name) park until released.
func (g *Gate) Hold(name string) {
	g.mu.Lock()
	g.held[name] = true
	g.notifyLocked()
	g.mu.Unlock()
}

// Held reports whether name is currently held.
func (g *Gate) Held(name string) bool {
	g.mu.Lock()
	defer g.mu.Unlock()
	return g.held[name]
}

// Release stops holding name; all parked senders proceed.
func (g *Gate) Release(name string) {
	g.mu.Lock()
	delete(g.held, name)
	g.tokens[name] = 0
	g.notifyLocked()
	g.mu.Unlock()
}

// ReleaseOne lets exactly one parked (or future) sender of name through while
// the hold stays in place.
func (g *Gate) ReleaseOne(name string) {
	g.mu.Lock()
	g.tokens[name]++
	g.notifyLocked()
	g.mu.Unlock()
}

// ReleaseAll drops every hold.
func (g *Gate) ReleaseAll() {
	g.mu.Lock()
	g.held = map[string]bool{}
	g.tokens = map[string]int{}
	g.notifyLocked()
	g.mu.Unlock()
}

// Enter is the yield point: it parks while name is held.
func (g *Gate) Enter(name string) {
	g.mu.Lock()
	g.entered[name]++
	if g.held[name] {
		g.parked[name]++
		g.notifyLocked()
		for g.held[name] && g.tokens[name] == 0 {
			ch := g.changed
			g.mu.Unlock()
			<-ch
			g.mu.Lock()
		}
		if g.held[name] {
			g.tokens[name]--
		}
		g.parked[name]--
	}
	g.notifyLocked()
	g.mu.Unlock()
}

// Exit records that the action guarded by Enter(name) finished.
func (g *Gate) Exit(name string, ok bool) {
	g.mu.Lock()
	g.sent[name]++
	if ok {
		g.sentOK[name]++
	}
	g.notifyLocked()
	g.mu.Unlock()
}

// MarkApplied increments the applied counter of name (for non-event yield points).
func (g *Gate) MarkApplied(name string) {
	g.mu.Lock()
	g.applied[name]++
	g.notifyLocked()
	g.mu.Unlock()
}

// Counters of one name.
type Counters struct{ Entered, Parked, Sent, SentOK, Applied int }

// Count returns the counters of name.
func (g *Gate) Count(name string) Counters {
	g.mu.Lock()
	defer g.mu.Unlock()
	return g.countLocked(name)
}

func (g *Gate) countLocked(name string) Counters {
	return Counters{g.entered[name], g.parked[name], g.sent[name], g.sentOK[name], g.applied[name]}
}

// Wait blocks until pred (evaluated under the gate lock on the counters
// accessor) is true or the wall-clock watchdog d expires (false).
func (g *Gate) Wait(d time.Duration, pred func(count func(string) Counters) bool) bool {
	timer := time.NewTimer(d)
	defer timer.Stop()
	for {
		g.mu.Lock()
		ok := pred(g.countLocked)
		ch := g.changed
		g.mu.Unlock()
		if ok {
			return true
		}
		select {
		case <-ch:
		case <-timer.C:
			return false
		}
	}
}

// Log returns a copy of the applied-event log.
func (g *Gate) Log() []Applied {
	g.mu.Lock()
	defer g.mu.Unlock()
	return append([]Applied(nil), g.log...)
}

// LogLen returns the number of logged events.
func (g *Gate) LogLen() int {
	g.mu.Lock()
	defer g.mu.Unlock()
	return len(g.log)
}

// Hooks returns the scheduler hooks of this gate.
func (g *Gate) Hooks() *scheduler.VerifC17Hooks {
	return &scheduler.VerifC17Hooks{
		BeforeSend: func(info scheduler.VerifC17EventInfo) { g.Enter(info.Name) },
		AfterSend:  func(info scheduler.VerifC17EventInfo, ok bool) { g.Exit(info.Name, ok) },
		BeforeApply: func(info scheduler.VerifC17EventInfo, v scheduler.VerifC17View) {
			if g.BeforeApply != nil {
				g.BeforeApply(info, v)
			}
		},
		AfterApply: func(info scheduler.VerifC17EventInfo, v scheduler.VerifC17View) {
			if g.AfterApply != nil {
				g.AfterApply(info, v)
			}
			g.mu.Lock()
			g.applied[info.Name]++
			if g.track[info.Name] {
				g.log = append(g.log, Applied{len(g.log), info.Name, info.InfoHash, info.Digest})
			}
			g.notifyLocked()
			g.mu.Unlock()
		},
	}
}
