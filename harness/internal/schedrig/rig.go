// Package schedrig builds real kraken torrent schedulers for the runtime
// monitors (C17, C18; generic enough for other scheduler-level checks): a real
// agentstorage archive on a CADownloadStore in a scratch directory, a stub
// in-process tracker (announce + metainfo), a mock or real clock, and an event
// gate (gate.go) attached through scheduler.VerifC17New.
package schedrig

import (
	"bytes"
	"fmt"
	"io"
	"math/rand"
	"net"
	"os"
	"path/filepath"
	"sync"
	"time"

	"github.com/andres-erbsen/clock"
	"github.com/uber-go/tally"
	"go.uber.org/zap"

	"github.com/uber/kraken/core"
	"github.com/uber/kraken/lib/store"
	"github.com/uber/kraken/lib/torrent/networkevent"
	"github.com/uber/kraken/lib/torrent/scheduler"
	"github.com/uber/kraken/lib/torrent/storage"
	"github.com/uber/kraken/lib/torrent/storage/agentstorage"
	"github.com/uber/kraken/lib/torrent/storage/piecereader"
	"github.com/uber/kraken/tracker/announceclient"
	"github.com/uber/kraken/tracker/metainfoclient"
	klog "github.com/uber/kraken/utils/log"
)

// Namespace used by all rig helpers (agent storage ignores it).
const Namespace = "verif/ns"

var quietOnce sync.Once

// Quiet silences kraken's global logger (package-level log calls in storage).
func Quiet() {
	quietOnce.Do(func() { klog.SetGlobalLogger(zap.NewNop().Sugar()) })
}

// Blob is a generated blob with its metainfo.
type Blob struct {
	Content  []byte
	Digest   core.Digest
	MetaInfo *core.MetaInfo
}

// NewBlob builds a blob of numPieces pieces (the last one possibly short) from r.
func NewBlob(r *rand.Rand, numPieces int, pieceLength int, lastShort bool) *Blob {
	size := numPieces * pieceLength
	if lastShort && pieceLength > 1 {
		size -= 1 + r.Intn(pieceLength-1)
	}
	b := make([]byte, size)
	for i := range b {
		b[i] = byte(r.Intn(256))
	}
	d, err := core.NewDigester().FromBytes(b)
	if err != nil {
		panic(err)
	}
	mi, err := core.NewMetaInfo(d, bytes.NewReader(b), int64(pieceLength))
	if err != nil {
		panic(err)
	}
	return &Blob{Content: b, Digest: d, MetaInfo: mi}
}

// InfoHash returns the torrent info hash of the blob.
func (b *Blob) InfoHash() core.InfoHash { return b.MetaInfo.InfoHash() }

// ---------------------------------------------------------------------------
// Stub tracker: announce + metainfo, in memory.

// Tracker is an in-process stand-in for the tracker: it hands out every other
// peer that announced (or was registered for) a torrent and serves metainfo.
type Tracker struct {
	mu       sync.Mutex
	peers    map[core.InfoHash]map[core.PeerID]*core.PeerInfo
	metainfo map[core.Digest]*core.MetaInfo
	interval time.Duration
	announce int64
}

// NewTracker returns an empty tracker.
func NewTracker() *Tracker {
	return &Tracker{
		peers:    map[core.InfoHash]map[core.PeerID]*core.PeerInfo{},
		metainfo: map[core.Digest]*core.MetaInfo{},
	}
}

// SetInterval sets the announce interval handed to clients (0 = client default).
func (t *Tracker) SetInterval(d time.Duration) { t.mu.Lock(); t.interval = d; t.mu.Unlock() }

// AddBlob makes the metainfo of b downloadable.
func (t *Tracker) AddBlob(b *Blob) {
	t.mu.Lock()
	t.metainfo[b.Digest] = b.MetaInfo
	t.mu.Unlock()
}

// Register adds a peer to the handout list of h without an announce.
func (t *Tracker) Register(h core.InfoHash, p *core.PeerInfo) {
	t.mu.Lock()
	defer t.mu.Unlock()
	t.register(h, p)
}

func (t *Tracker) register(h core.InfoHash, p *core.PeerInfo) {
	m := t.peers[h]
	if m == nil {
		m = map[core.PeerID]*core.PeerInfo{}
		t.peers[h] = m
	}
	m[p.PeerID] = p
}

// Forget removes a peer from all handout lists.
func (t *Tracker) Forget(id core.PeerID) {
	t.mu.Lock()
	defer t.mu.Unlock()
	for _, m := range t.peers {
		delete(m, id)
	}
}

// Announces returns the number of announce calls served.
func (t *Tracker) Announces() int64 { t.mu.Lock(); defer t.mu.Unlock(); return t.announce }

type announceClient struct {
	t    *Tracker
	pctx core.PeerContext
}

// AnnounceClient returns the announce client of the peer pctx.
func (t *Tracker) AnnounceClient(pctx core.PeerContext) announceclient.Client {
	return &announceClient{t, pctx}
}

func (c *announceClient) CheckReadiness() error { return nil }

func (c *announceClient) Announce(
	d core.Digest, h core.InfoHash, complete bool, version int) ([]*core.PeerInfo, time.Duration, error) {

	t := c.t
	t.mu.Lock()
	defer t.mu.Unlock()
	t.announce++
	t.register(h, core.PeerInfoFromContext(c.pctx, complete))
	var out []*core.PeerInfo
	for id, p := range t.peers[h] {
		if id == c.pctx.PeerID {
			continue
		}
		cp := *p
		out = append(out, &cp)
	}
	out = core.SortedByPeerID(out)
	return out, t.interval, nil
}

type metaInfoClient struct{ t *Tracker }

// MetaInfoClient returns a metainfo client backed by the tracker's blob list.
func (t *Tracker) MetaInfoClient() metainfoclient.Client { return metaInfoClient{t} }

func (c metaInfoClient) Download(namespace string, d core.Digest) (*core.MetaInfo, error) {
	c.t.mu.Lock()
	defer c.t.mu.Unlock()
	mi, ok := c.t.metainfo[d]
	if !ok {
		return nil, metainfoclient.ErrNotFound
	}
	return mi, nil
}

// ---------------------------------------------------------------------------
// Peers.

type nopProducer struct{}

func (nopProducer) Produce(*networkevent.Event) {}
func (nopProducer) Close() error                { return nil }

// PeerOptions configures NewPeer.
type PeerOptions struct {
	Config  scheduler.Config
	Clock   clock.Clock // nil = real clock
	Tracker *Tracker
	Dir     string // scratch directory owned by this peer
	PeerID  core.PeerID
	// WrapArchive, if set, wraps the real archive before it is given to the
	// scheduler (see NewArchiveWrapper).
	WrapArchive func(storage.TorrentArchive) storage.TorrentArchive
	// Hooks are the event loop hooks (usually (*Gate).Hooks()).
	Hooks *scheduler.VerifC17Hooks
}

// Peer is one running scheduler with its storage.
type Peer struct {
	Pctx    core.PeerContext
	Sched   *scheduler.VerifC17Scheduler
	CADS    *store.CADownloadStore
	Real    *agentstorage.TorrentArchive // the unwrapped archive
	Archive storage.TorrentArchive       // what the scheduler uses
	Dir     string

	stopOnce sync.Once
}

func freePort() (int, error) {
	l, err := net.Listen("tcp", "localhost:0")
	if err != nil {
		return 0, err
	}
	defer l.Close()
	return l.Addr().(*net.TCPAddr).Port, nil
}

// QuietConfig returns cfg with both scheduler loggers disabled and a generous
// (wall-clock) handshake timeout.
func QuietConfig(cfg scheduler.Config) scheduler.Config {
	cfg.Log = klog.Config{Disable: true}
	cfg.TorrentLog = klog.Config{Disable: true}
	if cfg.Conn.HandshakeTimeout == 0 {
		// Real-time socket deadline: on a loaded machine the 5 s default expires,
		// and with a mock clock nothing would ever retry the connection.
		cfg.Conn.HandshakeTimeout = 2 * time.Minute
	}
	return cfg
}

// NewPeer creates the storage and starts a scheduler.
func NewPeer(o PeerOptions) (*Peer, error) {
	Quiet()
	if o.Clock == nil {
		o.Clock = clock.New()
	}
	cads, err := store.NewCADownloadStore(store.CADownloadStoreConfig{
		DownloadDir: filepath.Join(o.Dir, "download"),
		CacheDir:    filepath.Join(o.Dir, "cache"),
	}, tally.NoopScope)
	if err != nil {
		return nil, fmt.Errorf("cads: %s", err)
	}
	real := agentstorage.NewTorrentArchive(tally.NoopScope, cads, o.Tracker.MetaInfoClient())
	var ta storage.TorrentArchive = real
	if o.WrapArchive != nil {
		ta = o.WrapArchive(real)
	}
	var lastErr error
	for attempt := 0; attempt < 20; attempt++ {
		port, err := freePort()
		if err != nil {
			lastErr = err
			continue
		}
		pctx := core.PeerContext{PeerID: o.PeerID, Zone: "zone1", IP: "localhost", Port: port}
		s, err := scheduler.VerifC17New(
			o.Config, ta, tally.NoopScope, pctx, o.Tracker.AnnounceClient(pctx), nopProducer{}, o.Clock, o.Hooks)
		if err != nil {
			lastErr = err
			continue
		}
		return &Peer{Pctx: pctx, Sched: s, CADS: cads, Real: real, Archive: ta, Dir: o.Dir}, nil
	}
	cads.Close()
	return nil, fmt.Errorf("start scheduler: %v", lastErr)
}

// RandomPeerID derives a peer id from r.
func RandomPeerID(r *rand.Rand) core.PeerID {
	b := make([]byte, 20)
	for i := range b {
		b[i] = byte(r.Intn(256))
	}
	id, err := core.NewPeerID(fmt.Sprintf("%x", b))
	if err != nil {
		panic(err)
	}
	return id
}

// Close stops the scheduler (idempotent) and the store's background jobs.
func (p *Peer) Close() {
	p.stopOnce.Do(func() {
		p.Sched.Stop()
		p.CADS.Close()
	})
}

// CloseStoreOnly releases the store when the caller stopped the scheduler itself.
func (p *Peer) CloseStoreOnly() {
	p.stopOnce.Do(func() { p.CADS.Close() })
}

// Seed writes the whole blob into p's storage (through the unwrapped archive)
// and asks the scheduler for it, which makes p seed it.
func (p *Peer) Seed(b *Blob) error {
	t, err := p.Real.CreateTorrent(Namespace, b.Digest)
	if err != nil {
		return fmt.Errorf("create torrent: %s", err)
	}
	pl := b.MetaInfo.PieceLength()
	for i := 0; i < t.NumPieces(); i++ {
		start := int64(i) * pl
		end := start + t.PieceLength(i)
		if err := t.WritePiece(piecereader.NewBuffer(b.Content[start:end]), i); err != nil && err != storage.ErrPieceComplete {
			return fmt.Errorf("write piece %d: %s", i, err)
		}
	}
	return p.Sched.Download(Namespace, b.Digest)
}

// CacheState describes what p's store holds for a blob.
type CacheState struct {
	InCache    bool
	InDownload bool
	// Mismatch: the cache file was read completely and differs from the blob,
	// and it was still there afterwards (a file deleted concurrently is not a
	// mismatch). Only evaluated when full is set.
	Mismatch bool
	// MismatchInfo describes the wrong content (length, zero bytes, first difference).
	MismatchInfo string
}

// Stat inspects the store for b. Content is compared only when full is set.
func (p *Peer) Stat(b *Blob, full bool) CacheState {
	var st CacheState
	st.InCache = p.InCache(b)
	if _, err := p.CADS.Download().GetFileStat(b.Digest.Hex()); err == nil {
		st.InDownload = true
	}
	if st.InCache && full {
		if readable, equal, info := p.cacheEquals(b); readable && !equal && p.InCache(b) {
			st.Mismatch, st.MismatchInfo = true, info
		} else if !readable {
			st.InCache = p.InCache(b)
		}
	}
	return st
}

func (p *Peer) cacheEquals(b *Blob) (readable, equal bool, info string) {
	f, err := p.CADS.Cache().GetFileReader(b.Digest.Hex())
	if err != nil {
		return false, false, ""
	}
	defer f.Close()
	got, err := io.ReadAll(f)
	if err != nil {
		return false, false, ""
	}
	if bytes.Equal(got, b.Content) {
		return true, true, ""
	}
	zeros, firstDiff := 0, -1
	for i, c := range got {
		if c == 0 {
			zeros++
		}
		if firstDiff < 0 && (i >= len(b.Content) || b.Content[i] != c) {
			firstDiff = i
		}
	}
	return true, false, fmt.Sprintf("cache file has %d bytes (%d of them zero), blob has %d bytes, first difference at offset %d",
		len(got), zeros, len(b.Content), firstDiff)
}

// InCache is a cheap presence test (stat only).
func (p *Peer) InCache(b *Blob) bool {
	_, err := p.CADS.Cache().GetFileStat(b.Digest.Hex())
	return err == nil
}

// TorrentState probes the torrent control of h on the event loop. ok is false
// when the scheduler is stopped.
func (p *Peer) TorrentState(h core.InfoHash) (st scheduler.VerifC17TorrentState, ok bool) {
	ok = p.Sched.VerifC17Inspect(func(v scheduler.VerifC17View) { st = v.Torrent(h) })
	return st, ok
}

// MkDir creates a fresh sub directory of base.
func MkDir(base, name string) string {
	d := filepath.Join(base, name)
	if err := os.MkdirAll(d, 0o755); err != nil {
		panic(err)
	}
	return d
}
