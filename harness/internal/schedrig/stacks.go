package schedrig

import (
	"bytes"
	"context"
	"runtime/pprof"
	"strings"
)

// WithLabel runs fn with the pprof label key=value; goroutines started inside
// inherit it, which lets FindGoroutines attribute parked goroutines to one
// scheduler / one call when several run in the same process.
func WithLabel(key, value string, fn func()) {
	pprof.Do(context.Background(), pprof.Labels(key, value), func(context.Context) { fn() })
}

// FindGoroutines returns the stack blocks of the goroutine profile which carry
// the label key=value and contain every one of the substrings in all.
func FindGoroutines(key, value string, all ...string) []string {
	var buf bytes.Buffer
	_ = pprof.Lookup("goroutine").WriteTo(&buf, 1)
	want := `"` + key + `":"` + value + `"`
	var out []string
	for _, block := range strings.Split(buf.String(), "\n\n") {
		if !strings.Contains(block, want) {
			continue
		}
		ok := true
		for _, s := range all {
			if !strings.Contains(block, s) {
				ok = false
				break
			}
		}
		if ok {
			out = append(out, block)
		}
	}
	return out
}
