package schedrig

import (
	"bytes"
	"runtime"
	"strconv"
	"strings"
)

// GID returns the id of the calling goroutine (parsed from its own traceback
// header; used only to find the goroutine again in a later dump).
func GID() int64 {
	var buf [64]byte
	n := runtime.Stack(buf[:], false)
	// "goroutine 123 [running]:"
	f := bytes.Fields(buf[:n])
	if len(f) < 2 {
		return -1
	}
	id, err := strconv.ParseInt(string(f[1]), 10, 64)
	if err != nil {
		return -1
	}
	return id
}

// Goroutine is one entry of a full goroutine dump.
type Goroutine struct {
	ID    int64
	State string // e.g. "chan receive", "chan send", "runnable", "select"
	Stack string // the whole block including the header
}

// In reports whether the stack contains a frame whose function name contains fn.
func (g Goroutine) In(fn string) bool { return strings.Contains(g.Stack, fn) }

// Dump returns all goroutines of the process keyed by id. The state is the
// scheduler wait reason: a goroutine in "chan receive" / "chan send" is parked
// on that channel operation (a goroutine that has been readied is "runnable").
func Dump() map[int64]Goroutine {
	size := 1 << 20
	var buf []byte
	for {
		buf = make([]byte, size)
		n := runtime.Stack(buf, true)
		if n < size {
			buf = buf[:n]
			break
		}
		size *= 2
	}
	out := map[int64]Goroutine{}
	for _, block := range strings.Split(string(buf), "\n\n") {
		block = strings.TrimSpace(block)
		if !strings.HasPrefix(block, "goroutine ") {
			continue
		}
		head := block
		if i := strings.IndexByte(block, '\n'); i >= 0 {
			head = block[:i]
		}
		// goroutine 12 [chan receive, 2 minutes]:
		rest := strings.TrimPrefix(head, "goroutine ")
		sp := strings.IndexByte(rest, ' ')
		if sp < 0 {
			continue
		}
		id, err := strconv.ParseInt(rest[:sp], 10, 64)
		if err != nil {
			continue
		}
		state := ""
		if l, r := strings.IndexByte(rest, '['), strings.IndexByte(rest, ']'); l >= 0 && r > l {
			state = rest[l+1 : r]
			if c := strings.IndexByte(state, ','); c >= 0 {
				state = state[:c]
			}
		}
		out[id] = Goroutine{ID: id, State: state, Stack: block}
	}
	return out
}
