#!/usr/bin/env python3
"""keep_seed.py <ID> <variant-dir> "<SEED result line>"  -> copies a confirmed seeded change into /verif/seeded/<ID>-<variant>/"""
import json, os, re, shutil, sys
pid, vdir, line = sys.argv[1], os.path.abspath(sys.argv[2]), sys.argv[3]
var = os.path.basename(vdir)
dst = "/verif/seeded/%s-%s" % (pid, var)
shutil.rmtree(dst, ignore_errors=True)
os.makedirs(dst)
shutil.copy(os.path.join(vdir, "patch.diff"), dst)
shutil.copytree(os.path.join(vdir, "demo"), os.path.join(dst, "demo"))
try:
    meta = json.load(open(os.path.join(vdir, "meta.json")))
except Exception as e:
    meta = {"property": pid, "variant": var, "summary": "(agent meta.json unreadable: %s)" % e}
m = dict(re.findall(r"(\w+)=(\S+)", line.split("signature=")[0]))
sigs = re.findall(r"signature=(\S+)", line)
meta["breaks_property"] = pid
meta["confirmed"] = {
    "demo_exit_on_clean_tree": m.get("demo_clean"),
    "demo_exit_with_patch": m.get("demo_patched"),
    "kraken_suite_with_patch": "all stable baseline tests pass" if m.get("suite") == "0" else m.get("suite"),
    "how": "tools/verify_seed.sh %s <dir>: scratch worktree of /repo HEAD, demo/run.sh on the clean tree, git apply patch.diff, go build ./..., tools/suite.py (full suite vs BASELINE.json stable set), demo/run.sh again, then VERIF_REPO=<worktree> ./check %s quick" % (pid, pid),
}
meta["our_check"] = {"check": pid, "tier": "quick", "exit": m.get("check_exit"), "detected": m.get("check_exit") == "1", "signatures": sorted(set(sigs))}
json.dump(meta, open(os.path.join(dst, "meta.json"), "w"), indent=1)
print("kept", dst, "detected" if meta["our_check"]["detected"] else "MISSED")
