#!/usr/bin/env python3
"""mark_fixed.py <ID> <commit> [substr]: move known findings of ID (whose signature contains substr) to status fixed."""
import json, os, sys
pid, commit = sys.argv[1], sys.argv[2]
sub = sys.argv[3] if len(sys.argv) > 3 else ""
kf = "/verif/known_findings.json"
main = json.load(open(kf))
dp = "/verif/known_findings.d/%s.json" % pid
moved = 0
if os.path.exists(dp):
    rest = []
    for f in json.load(open(dp)):
        if f["property"] == pid and sub in f["signature"] and f.get("status") == "known":
            f["status"] = "fixed"; f["commit"] = commit
            f["what"] = f["what"].split(" Proposed patch:")[0]
            main.append(f); moved += 1
        else:
            rest.append(f)
    if rest:
        json.dump(rest, open(dp, "w"), indent=1)
    else:
        os.remove(dp)
for f in main:
    if f["property"] == pid and sub in f["signature"] and f.get("status") == "known":
        f["status"] = "fixed"; f["commit"] = commit; moved += 1
json.dump(main, open(kf, "w"), indent=1)
print("moved", moved)
