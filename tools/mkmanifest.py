#!/usr/bin/env python3
"""Generate /verif/MANIFEST.json from checks.json (+ properties.jsonl for the not_applicable list)."""
import json, os, subprocess
ROOT = os.path.dirname(os.path.dirname(os.path.abspath(__file__)))
checks = json.load(open(os.path.join(ROOT, "checks.json")))
_d = os.path.join(ROOT, "checks.d")
if os.path.isdir(_d):
    for fn in sorted(os.listdir(_d)):
        if fn.endswith(".json"):
            checks[fn[:-5]] = json.load(open(os.path.join(_d, fn)))
props = [json.loads(l) for l in open(os.path.join(ROOT, "properties.jsonl")) if l.strip()]
na_file = os.path.join(ROOT, "not_applicable.json")
na = json.load(open(na_file)) if os.path.exists(na_file) else {}
hooks = [l.split()[0] for l in subprocess.check_output(
    ["git", "-C", "/repo", "log", "--format=%h %s", "736327b..HEAD"], text=True).splitlines()
    if l.split(" ", 1)[1].startswith("verif hooks:")]
m = {
    "version": 1,
    "setup_cmd": "./tools/setup.sh",
    "hooks": {
        "guard": "verif",
        "enable": "go build tag: checks run `go test -tags verif` on /verif/harness, whose go.mod replaces github.com/uber/kraken with /repo",
        "baseline_off_cmd": "cd /repo && GOPROXY=off GOFLAGS=-mod=mod go test -json -vet=off -count=1 -timeout 25m ./...",
        "source_commits": hooks,
        "add_only": True,
    },
    "engines": [],
    "checks": [],
    "notes": "Runtime monitoring only: every check executes the real kraken code (rebuilt from /repo's working tree) under generated workloads while oracles written in /verif/harness observe it. See DESIGN.md.",
    "not_applicable": [],
}
engines = {}
ready = set(open(os.path.join(ROOT, "ready.txt")).read().split())
for cid in sorted(checks):
    c = checks[cid]
    if c.get("disabled") or cid not in ready:
        continue
    m["checks"].append({
        "property_id": cid,
        "quick_cmd": "./check %s quick" % cid,
        "thorough_cmd": "./check %s thorough" % cid,
        "evidence_file": "evidence/%s.json" % cid,
        "replay_cmd_template": "./check %s --replay {path}" % cid,
        "engine": c.get("engine", "oracle-gen"),
        "level_claimed": {
            "category": c.get("level", "exploration"),
            "text": c.get("level_text", ""),
            "design_ref": "DESIGN.md section 3, " + cid,
        },
        "level_note": c.get("level_note", ""),
        "technique": c.get("technique", ""),
    })
    engines.setdefault(c.get("engine", "oracle-gen"), []).append(cid)
for e, ids in sorted(engines.items()):
    m["engines"].append({"name": e, "path": "harness/", "serves_properties": ids,
                         "kind_free_text": "runtime monitor (Go test package per property under harness/) driven by ./check"})
claimed = {c["property_id"] for c in m["checks"]}
for p in props:
    if p["id"] not in claimed:
        m["not_applicable"].append({"property_id": p["id"],
                                    "reason": na.get(p["id"], "check not built yet (work in progress); designed in DESIGN.md section 3")})
json.dump(m, open(os.path.join(ROOT, "MANIFEST.json"), "w"), indent=1)
print("checks:", len(m["checks"]), "not_applicable:", len(m["not_applicable"]))
