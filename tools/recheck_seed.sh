#!/bin/bash
# usage: recheck_seed.sh <seed-name e.g. C06-a> [tier]  : re-run our check against the kept seeded patch and update its meta.json
N=$1; TIER=${2:-quick}; ID=${N%-*}; D=/verif/seeded/$N
export GOPROXY=off GOFLAGS=-mod=mod; unset GOTOOLCHAIN GOSUMDB
WT=/var/tmp/wt-re-$N-$$
git -C /repo worktree add --detach -q "$WT" HEAD || exit 2
trap 'git -C /repo worktree remove --force "$WT" >/dev/null 2>&1' EXIT
git -C "$WT" apply "$D/patch.diff" 2>/dev/null || git -C "$WT" apply -3 "$D/patch.diff" 2>/dev/null || { echo "RECHECK $N: patch no longer applies to HEAD"; exit 2; }
( cd "$WT" && go build ./... ) >/dev/null 2>&1 || { echo "RECHECK $N: does not build"; exit 2; }
( cd /verif && VERIF_REPO="$WT" ./check "$ID" "$TIER" ) > /var/tmp/recheck-$N.log 2>&1; c=$?
python3 - "$D/meta.json" "$c" "$TIER" /var/tmp/recheck-$N.log <<'PY'
import json, re, sys
p, c, tier, log = sys.argv[1], sys.argv[2], sys.argv[3], sys.argv[4]
m = json.load(open(p))
sigs = sorted(set(re.findall(r"signature=(\S+)", open(log, errors="replace").read())))
prev = m.get("our_check", {})
m["our_check"] = {"check": m.get("breaks_property"), "tier": tier, "exit": c, "detected": c == "1", "signatures": sigs[:8]}
if not prev.get("detected") and c == "1":
    m["note"] = "missed by the first version of the check; caught after the check was strengthened"
json.dump(m, open(p, "w"), indent=1)
PY
echo "RECHECK $N: check_exit=$c"
