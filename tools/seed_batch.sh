#!/bin/bash
# usage: seed_batch.sh ID/variant ...   (sequential: verify with suite, keep when confirmed)
cd /verif
for pv in "$@"; do
  id=${pv%/*}; d=/tmp/mut-out/$pv
  [ -f "$d/patch.diff" ] || { echo "SKIP $pv (no patch)"; continue; }
  line=$(tools/verify_seed.sh "$id" "$d")
  echo "$line" | cut -c1-300
  if echo "$line" | grep -q "demo_clean=0 demo_patched=[1-9][0-9]* suite=0"; then
    tools/keep_seed.py "$id" "$d" "$line"
  else
    echo "NOT KEPT $pv"
  fi
done
echo BATCH-DONE
