#!/bin/sh
# Build (and cache) the harness test binaries against /repo, offline.
# Nothing is downloaded: GOPROXY=off, all modules come from the module cache.
cd "$(dirname "$0")/../harness" || exit 1
export GOPROXY=off GOFLAGS=-mod=mod
unset GOTOOLCHAIN GOSUMDB
rc=0
for id in $(cat ../ready.txt); do
  pkg="./$(echo "$id" | tr 'A-Z' 'a-z')/"
  go test -tags verif -vet=off -count=1 -run XXX_NONE "$pkg" >/dev/null 2>&1 || \
  go test -tags verif -vet=off -count=1 -run XXX_NONE "$pkg" || rc=1
done
# race-instrumented std + deps (shared by every -race check)
go test -tags verif -vet=off -race -count=1 -run XXX_NONE ./internal/ev/ >/dev/null 2>&1
[ $rc -eq 0 ] && echo "setup ok" || echo "setup: some packages failed to build"
exit $rc
