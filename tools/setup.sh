#!/bin/sh
# Build (and cache) the harness test binaries against /repo, offline.
set -e
cd "$(dirname "$0")/../harness"
export GOPROXY=off GOFLAGS=-mod=mod
unset GOTOOLCHAIN GOSUMDB
go test -tags verif -vet=off -count=1 -run XXX_NONE ./... >/dev/null
go test -tags verif -vet=off -race -count=1 -run XXX_NONE ./... >/dev/null
echo setup ok
