#!/usr/bin/env python3
"""Print the prompt for a mutator agent for property ID and create its worktree/out dirs."""
import json, os, subprocess, sys
pid = sys.argv[1]
wt = "/tmp/mut-%s" % pid
out = "/tmp/mut-out/%s" % pid
os.makedirs(out, exist_ok=True)
if not os.path.exists(wt):
    subprocess.check_call(["git", "-C", "/repo", "worktree", "add", "--detach", "-q", wt, "HEAD"])
prop = [json.loads(l) for l in open("/verif/properties.jsonl") if l.strip() and json.loads(l)["id"] == pid][0]
t = open("/verif/tools/mutator_prompt.md").read()
print(t.replace("{WT}", wt).replace("{OUT}", out).replace("{ID}", pid).replace("{PROPERTY}", json.dumps(prop, indent=1)))
