#!/usr/bin/env python3
"""Round 2: prompt for a mutator producing variants c and d, avoiding the sites/mechanisms of the kept variants."""
import glob, json, os, subprocess, sys
pid = sys.argv[1]
wt = "/tmp/mut2-%s" % pid
out = "/tmp/mut-out/%s" % pid
os.makedirs(out, exist_ok=True)
if os.path.exists(wt):
    subprocess.call(["git", "-C", "/repo", "worktree", "remove", "--force", wt])
subprocess.check_call(["git", "-C", "/repo", "worktree", "add", "--detach", "-q", wt, "HEAD"])
prop = [json.loads(l) for l in open("/verif/properties.jsonl") if l.strip() and json.loads(l)["id"] == pid][0]
t = open("/verif/tools/mutator_prompt.md").read()
t = t.replace("{WT}", wt).replace("{OUT}", out).replace("{ID}", pid).replace("{PROPERTY}", json.dumps(prop, indent=1))
t = t.replace("(variant `a` and variant `b`)", "(variant `c` and variant `d`)").replace("`{OUT}/a/` and `{OUT}/b/`".replace("{OUT}", out), "`%s/c/` and `%s/d/`" % (out, out))
t = t.replace('"variant": "a"', '"variant": "c"')
prev = []
for mf in sorted(glob.glob("/verif/seeded/%s-*/meta.json" % pid)):
    m = json.load(open(mf))
    prev.append("- files %s: %s" % (", ".join(m.get("files", [])[:3]), (m.get("summary", "") or "")[:300]))
if prev:
    t += "\n\nOther developers have already produced the following regressions for this property; yours must use DIFFERENT sites and mechanisms (do not re-do these, and do not simply revert recent fixes in the git log):\n" + "\n".join(prev) + "\n"
print(t)
