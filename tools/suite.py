#!/usr/bin/env python3
"""Run kraken's test suite in a checkout (hooks off) and compare with BASELINE.json.
usage: suite.py <repo-dir>   -> exit 0 iff every stable_pass test passed."""
import json, os, subprocess, sys
repo = sys.argv[1]
base = json.load(open("/root/.vp/BASELINE.json"))
stable = set(base["stable_pass"])
env = dict(os.environ, GOPROXY="off", GOFLAGS="-mod=mod")
env.pop("GOTOOLCHAIN", None); env.pop("GOSUMDB", None)
p = subprocess.run(["go", "test", "-json", "-vet=off", "-count=1", "-timeout", "25m", "./..."], cwd=repo, env=env,
                   stdout=subprocess.PIPE, stderr=subprocess.STDOUT, text=True, errors="replace")
res = {}
buildfail = []
for line in p.stdout.splitlines():
    try:
        e = json.loads(line)
    except Exception:
        continue
    if e.get("Action") in ("pass", "fail", "skip") and e.get("Test"):
        res["%s::%s" % (e["Package"], e["Test"])] = e["Action"]
    if e.get("Action") == "fail" and not e.get("Test"):
        buildfail.append(e.get("Package"))
bad = sorted(t for t in stable if res.get(t) != "pass")
print("suite: %d results, stable=%d, stable-not-passing=%d" % (len(res), len(stable), len(bad)))
for t in bad[:30]:
    print("  NOT PASSING:", t, res.get(t))
if buildfail:
    print("  failing packages:", sorted(set(buildfail))[:20])
sys.exit(1 if bad else 0)
