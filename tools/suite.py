#!/usr/bin/env python3
"""Run kraken's test suite in a checkout (hooks off) and compare with BASELINE.json.
usage: suite.py <repo-dir>   -> exit 0 iff every stable_pass test passed."""
import json, os, subprocess, sys
repo = sys.argv[1]
base = json.load(open("/root/.vp/BASELINE.json"))
stable = set(base["stable_pass"])
env = dict(os.environ, GOPROXY="off", GOFLAGS="-mod=mod")
env.pop("GOTOOLCHAIN", None); env.pop("GOSUMDB", None)
targets = ["./..."]
if len(sys.argv) > 2:
    # restrict to the packages that (transitively, incl. test imports) depend on a package touched by the patch:
    # no other package's tests can be affected by the change
    import re
    changed = set()
    for line in open(sys.argv[2]):
        m = re.match(r"^\+\+\+ b/(.+)/[^/]+\.go$", line)
        if m:
            changed.add("github.com/uber/kraken/" + m.group(1))
    lp = subprocess.run(["go", "list", "-test", "-f", "{{.ImportPath}} {{join .Deps \" \"}}", "./..."], cwd=repo, env=env,
                        stdout=subprocess.PIPE, stderr=subprocess.DEVNULL, text=True)
    targets = set()
    for line in lp.stdout.splitlines():
        parts = line.split()
        if not parts:
            continue
        pkg = parts[0].split(" ")[0]
        base = re.sub(r"(_test)?( \[.*)?$", "", pkg).replace(".test", "")
        deps = set(parts[1:]) | {base}
        if deps & changed and base.startswith("github.com/uber/kraken"):
            targets.add(base)
    targets = sorted(t for t in targets if "[" not in t)
    stable = {t for t in stable if t.split("::")[0] in set(targets)}
    print("suite: restricted to %d dependent packages of %s (%d stable tests)" % (len(targets), sorted(changed), len(stable)))
p = subprocess.run(["go", "test", "-json", "-vet=off", "-count=1", "-timeout", "25m", *targets], cwd=repo, env=env,
                   stdout=subprocess.PIPE, stderr=subprocess.STDOUT, text=True, errors="replace")
res = {}
buildfail = []
for line in p.stdout.splitlines():
    try:
        e = json.loads(line)
    except Exception:
        continue
    if e.get("Action") in ("pass", "fail", "skip") and e.get("Test"):
        res["%s::%s" % (e["Package"], e["Test"])] = e["Action"]
    if e.get("Action") == "fail" and not e.get("Test"):
        buildfail.append(e.get("Package"))
def run(pkgs, extra=()):
    p = subprocess.run(["go", "test", "-json", "-vet=off", "-count=1", "-timeout", "25m", *extra, *pkgs], cwd=repo, env=env,
                       stdout=subprocess.PIPE, stderr=subprocess.STDOUT, text=True, errors="replace")
    out = {}
    for line in p.stdout.splitlines():
        try:
            e = json.loads(line)
        except Exception:
            continue
        if e.get("Action") in ("pass", "fail", "skip") and e.get("Test"):
            out["%s::%s" % (e["Package"], e["Test"])] = e["Action"]
    return out

bad = sorted(t for t in stable if res.get(t) != "pass")
print("suite: %d results, stable=%d, stable-not-passing on first run=%d" % (len(res), len(stable), len(bad)))
# timing-sensitive tests flake on a loaded machine: re-run the affected packages alone (serially), up to 3 times
for attempt in range(3):
    if not bad:
        break
    pkgs = sorted({t.split("::")[0] for t in bad})
    print("  re-running alone (attempt %d): %s" % (attempt + 1, " ".join(p.replace("github.com/uber/kraken/", "") for p in pkgs)))
    for pkg in pkgs:
        r = run([pkg], extra=("-p", "1"))
        for t, a in r.items():
            if a == "pass":
                res[t] = "pass"
    bad = sorted(t for t in stable if res.get(t) != "pass")
print("suite: stable-not-passing after re-runs=%d" % len(bad))
for t in bad[:30]:
    print("  NOT PASSING:", t, res.get(t))
sys.exit(1 if bad else 0)
