#!/opt/veriftools/pyvenv/bin/python
"""Validate MANIFEST.json and every evidence file against the schemas."""
import json, sys, glob, jsonschema
ok = True
try:
    jsonschema.validate(json.load(open('/verif/MANIFEST.json')), json.load(open('/root/.vp/MANIFEST.schema.json')))
    print("MANIFEST ok")
except Exception as e:
    ok = False; print("MANIFEST INVALID", str(e)[:500])
es = json.load(open('/root/.vp/EVIDENCE.schema.json'))
for f in sorted(glob.glob('/verif/evidence/*.json')):
    try:
        jsonschema.validate(json.load(open(f)), es)
    except Exception as e:
        ok = False; print(f, "INVALID", str(e)[:500])
print("evidence files:", len(glob.glob('/verif/evidence/*.json')))
sys.exit(0 if ok else 1)
