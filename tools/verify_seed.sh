#!/bin/bash
# usage: verify_seed.sh <ID> <variant-dir> [--no-suite] [tier]
# Confirms a seeded change: demo passes on clean tree, patch applies+builds, suite still passes,
# demo fails with the patch, then runs our check against the patched tree.
ID=$1; V=$(readlink -f "$2"); shift 2
SUITE=1; TIER=quick
for a in "$@"; do case $a in --no-suite) SUITE=0;; quick|thorough) TIER=$a;; esac; done
export GOPROXY=off GOFLAGS=-mod=mod; unset GOTOOLCHAIN GOSUMDB
WT=/var/tmp/wt-seed-$ID-$$
git -C /repo worktree add --detach -q "$WT" HEAD || exit 2
trap 'git -C /repo worktree remove --force "$WT" >/dev/null 2>&1' EXIT
res() { echo "SEED $ID $(basename $V): $*"; }
( cd "$V/demo" && bash ./run.sh "$WT" ) >"$V/verify_demo_clean.log" 2>&1; d0=$?
git -C "$WT" checkout -q -- . ; git -C "$WT" clean -fdq
if ! git -C "$WT" apply "$V/patch.diff" 2>"$V/verify_apply.log"; then
  if ! git -C "$WT" apply -3 "$V/patch.diff" 2>>"$V/verify_apply.log"; then res "patch does not apply"; exit 2; fi
fi
( cd "$WT" && go build ./... ) >"$V/verify_build.log" 2>&1 || { res "does not build"; exit 2; }
s=skipped
if [ $SUITE = 1 ]; then /verif/tools/suite.py "$WT" "$V/patch.diff" >"$V/verify_suite.log" 2>&1; s=$?; fi
( cd "$V/demo" && bash ./run.sh "$WT" ) >"$V/verify_demo_patched.log" 2>&1; d1=$?
git -C "$WT" clean -fdq
( cd /verif && VERIF_REPO="$WT" ./check "$ID" "$TIER" ) >"$V/verify_check.log" 2>&1; c=$?
res "demo_clean=$d0 demo_patched=$d1 suite=$s check_exit=$c $(grep -m3 'signature=' "$V/verify_check.log" | tr '\n' ' ')"
